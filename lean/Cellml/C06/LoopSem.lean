import Cellml.C06.Cases
import Cellml.C06.Loop

/-! C06: the loop over the ODEs in `convert_variable(time, …, INPUT)` — invariant and both directions of the
    correspondence of solutions. -/

namespace Model.CV
open Model

variable {K : Type} [Field K]

/-- what one turn does to the replacement map, whatever the state -/
theorem freeStep_rep (v nv : Nat) (cfq : X) (acc : CState × Rep) (ode : CEqn) :
    (∃ x w, ode.lhs = .deriv x v ∧ (freeStep v nv cfq acc ode).2 = insertKey (x, v) w acc.2) ∨
    ((∀ x, ode.lhs ≠ .deriv x v) ∧ (freeStep v nv cfq acc ode).2 = acc.2) := by
  cases hl : ode.lhs with
  | var a =>
    right
    refine ⟨fun x h => (by cases h), ?_⟩
    simp only [freeStep, hl]
  | deriv x t =>
    by_cases ht : t = v
    · subst ht
      left
      refine ⟨x, (removeOdeAssign acc.1 ode x).2, rfl, ?_⟩
      simp only [freeStep, hl, if_true, convertFreeDeriv, List.foldl_cons, List.foldl_nil]
    · right
      refine ⟨fun x' h => (by cases h; exact ht rfl), ?_⟩
      simp only [freeStep, hl, ht, if_false]

/-- a key that no remaining ODE will insert keeps its entry -/
theorem fold_lookup_stable (v nv : Nat) (cfq : X) (k : Nat × Nat) : ∀ (L : List CEqn) (acc : CState × Rep),
    (∀ ode ∈ L, ∀ x, ode.lhs = .deriv x v → (x, v) ≠ k) →
    (L.foldl (freeStep v nv cfq) acc).2.lookup k = acc.2.lookup k := by
  intro L
  induction L with
  | nil => intro acc _; rfl
  | cons ode L ih =>
    intro acc h
    simp only [List.foldl_cons]
    rw [ih _ (fun o ho => h o (List.mem_cons_of_mem _ ho))]
    rcases freeStep_rep v nv cfq acc ode with ⟨x, w, hl, hr⟩ | ⟨_, hr⟩
    · rw [hr, lookup_insertKey, if_neg]
      exact fun hk => h ode (List.mem_cons_self ..) x hl hk.symm
    · rw [hr]

/-- the whole loop: the invariant at the end, and the two directions -/
theorem loop_sem (I : Interp K) (v nv : Nat) (cf : Rat) (uu : U) :
    ∀ (L : List CEqn) (st : CState) (rep : Rep), LoopInv v nv st rep L →
    LoopInv v nv (L.foldl (freeStep v nv (.lit cf uu)) (st, rep)).1 (L.foldl (freeStep v nv (.lit cf uu)) (st, rep)).2 [] ∧
    st.vars.length ≤ (L.foldl (freeStep v nv (.lit cf uu)) (st, rep)).1.vars.length ∧
    (rep = [] → L ≠ [] → (L.foldl (freeStep v nv (.lit cf uu)) (st, rep)).2 ≠ []) ∧
    (∀ τ : Val K, SatL I τ st.equations → (∀ x, τ.d x nv = τ.d x v / I.lit cf) →
      ∃ τ' : Val K, SatL I τ' (L.foldl (freeStep v nv (.lit cf uu)) (st, rep)).1.equations ∧
        Agree st.vars.length τ τ' ∧ τ'.d = τ.d ∧
        ∀ p ∈ (L.foldl (freeStep v nv (.lit cf uu)) (st, rep)).2, p ∈ rep ∨ τ'.v p.2 = τ.d p.1.1 p.1.2) ∧
    (∀ τ : Val K, SatL I τ (L.foldl (freeStep v nv (.lit cf uu)) (st, rep)).1.equations →
      (∀ k w, (L.foldl (freeStep v nv (.lit cf uu)) (st, rep)).2.lookup k = some w → τ.d k.1 k.2 = τ.v w) →
      SatL I τ st.equations ∧ ∀ ode ∈ L, ∀ x, ode.lhs = .deriv x v → τ.d x nv = τ.d x v / I.lit cf) := by
  intro L
  induction L with
  | nil =>
    intro st rep J
    refine ⟨J, Nat.le_refl _, fun _ h => absurd rfl h, ?_, ?_⟩
    · intro τ hτ _
      exact ⟨τ, hτ, Agree.refl _ _, rfl, fun p hp => Or.inl hp⟩
    · intro τ hτ _
      exact ⟨hτ, fun o ho => by cases ho⟩
  | cons ode L ih =>
    intro st rep J
    obtain ⟨ho, x, hl, hxnv⟩ := J.inL ode (List.mem_cons_self ..)
    obtain ⟨s1, s2, s3, J1⟩ := freeStep_spec (.lit cf uu) rfl J x hl hxnv
    simp only [List.foldl_cons]
    -- name the state and the map after this turn
    generalize hst1 : (freeStep v nv (.lit cf uu) (st, rep) ode).1 = st1 at s2 s3 J1
    generalize hrep1 : (freeStep v nv (.lit cf uu) (st, rep) ode).2 = rep1 at s1 J1
    have hacc : freeStep v nv (.lit cf uu) (st, rep) ode = (st1, rep1) := by rw [← hst1, ← hrep1]
    rw [hacc]
    obtain ⟨i1, i2, i3, i4, i5⟩ := ih st1 rep1 J1
    have hscoped : EqScoped st.vars.length ode := J.inv.scopedE ode ho
    refine ⟨i1, by rw [s3] at i2; omega, ?_, ?_, ?_⟩
    · -- the map is not empty at the end
      intro _ _ hne
      have hk : (L.foldl (freeStep v nv (.lit cf uu)) (st1, rep1)).2.lookup (x, v) = some st.vars.length := by
        rw [fold_lookup_stable v nv (.lit cf uu) (x, v) L (st1, rep1)]
        · show rep1.lookup (x, v) = _
          rw [s1, lookup_insertKey, if_pos rfl]
        · intro o ho' x' hl' hxx
          cases hxx
          have := J.inv.key_inj (J.inL o (List.mem_cons_of_mem _ ho')).1 ho
            (by rw [keyKind_deriv hl', keyKind_deriv hl])
          exact (List.nodup_cons.mp J.nodup).1 (this ▸ ho')
      rw [hne] at hk; cases hk
    · -- forward
      intro τ hτ hd
      have hag := agree_setV st.vars.length τ st.vars.length (τ.d x v) (Nat.le_refl _)
      have hode := hτ ode ho
      simp only [Holds, hl, lhsVal] at hode
      have h1 : SatL I (τ.setV st.vars.length (τ.d x v)) st1.equations := by
        rw [s2]
        simp only [satL_append, satL_cons]
        refine ⟨fun e he => (holds_of_agree I (J.inv.scopedE e (List.mem_of_mem_erase he)) hag).mpr
                  (hτ e (List.mem_of_mem_erase he)), ?_, ?_, satL_nil I _⟩
        · have := (holds_of_agree I hscoped hag).mpr (hτ ode ho)
          simp only [Holds, hl, lhsVal] at this
          simp only [Holds, lhsVal, setV_self, ← this]; rfl
        · simp only [Holds, lhsVal, ev_div, ev_var, ev_lit, setV_self]
          exact hd x
      obtain ⟨τ', t1, t2, t3, t4⟩ := i4 (τ.setV st.vars.length (τ.d x v)) h1 hd
      refine ⟨τ', t1, hag.trans t2 (by rw [s3]; omega), t3, ?_⟩
      intro p hp
      rcases t4 p hp with h | h
      · rw [s1] at h
        rcases mem_insertKey_weak _ _ _ _ h with h | h
        · right; rw [h]
          have := t2.1 st.vars.length (by rw [s3]; omega)
          rw [this, setV_self]
        · exact Or.inl h
      · exact Or.inr h
    · -- backward
      intro τ hτ hlk
      obtain ⟨b1, b2⟩ := i5 τ hτ hlk
      rw [s2] at b1
      simp only [satL_append, satL_cons] at b1
      obtain ⟨c1, c2, c3, _⟩ := b1
      simp only [Holds, lhsVal, ev_div, ev_var, ev_lit] at c2 c3
      have hk : (L.foldl (freeStep v nv (.lit cf uu)) (st1, rep1)).2.lookup (x, v) = some st.vars.length := by
        rw [fold_lookup_stable v nv (.lit cf uu) (x, v) L (st1, rep1)]
        · show rep1.lookup (x, v) = _
          rw [s1, lookup_insertKey, if_pos rfl]
        · intro o ho' x' hl' hxx
          cases hxx
          have := J.inv.key_inj (J.inL o (List.mem_cons_of_mem _ ho')).1 ho
            (by rw [keyKind_deriv hl', keyKind_deriv hl])
          exact (List.nodup_cons.mp J.nodup).1 (this ▸ ho')
      have hdw : τ.d x v = τ.v st.vars.length := hlk (x, v) _ hk
      refine ⟨(satL_erase I τ st.equations ode ho).mpr ⟨c1, ?_⟩, ?_⟩
      · simp only [Holds, hl, lhsVal, hdw, c2]
      · intro o ho' x' hl'
        rcases List.mem_cons.mp ho' with h | h
        · subst h; rw [hl] at hl'; cases hl'
          rw [c3, hdw]
        · exact b2 o h x' hl'

end Model.CV
