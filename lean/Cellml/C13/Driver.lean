import Cellml.Basic.Sexp
/-! Channel C13 of the model driver (stub: not built yet). -/
namespace C13
def handle (_args : List Sexp) : Sexp := .atom "not-implemented"
end C13
