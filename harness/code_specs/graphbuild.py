"""Code-translator spec: the Model.graph property (cellmlmanip/model.py) -> lean/Cellml/Generated/Code/GraphBuild.lean,
tied to C09.buildGraph in lean/Cellml/Tie/GraphBuild.lean.

State threaded explicitly: `cache` (self._graph), `ty` (the `.type` attributes of all Variable objects), `graph`.
The tie (graph_tie_types) equates the returned graph, the cache AND the `.type` attributes left behind (three loops:
left-hand sides, then STATE, then FREE - the roles that come from the ODEs win, whatever the order of the equations).
Leaves bound here (none of them is decided inside the property):
 * self._graph; nx.DiGraph(); self._name_to_variable.values(); equation.atoms(Variable) (sympy);
   self.find_variables_and_derivatives([equation.rhs]) (a set, in whatever order); sorted(xs, key=str) (the python
   builtin: a stable sort by the `str` key - that it is APPLIED to the set of references, and where, comes from the
   source); lhs.is_Derivative, lhs.free_symbols.pop(), lhs.variables[0]
   (sympy); isinstance(equation.rhs, Quantity); str(x); the four VariableType members;
 * v.type = t / v.type: write / read of the explicit type map;
 * graph.add_node / graph.add_edge (networkx; a dict of nodes: re-adding keeps the place). The node attributes
   `equation` and `variable_type` are NOT part of C09.Graph (equations are looked up in the equation list; roles are
   the subject of C08/C10) - the attribute arguments are dropped and the final attribute write is a no-op;
 * len(set(xs)): number of distinct elements.
"""

GROUP = {'name': 'GraphBuild',
 'imports': ['Cellml.Tie.GraphView'],
 'header': 'open Cellml.Tie.PGraph\nopen C09',
 'functions': [{'file': 'cellmlmanip/model.py',
                'func': 'Model.graph',
                'lean_name': 'graph',
                'params': ['self', 'cache', 'ty'],
                'signature': '(self : BuildView) (cache : Option Graph) (ty : TyMap) : '
                             'Except PyErr (Graph × Option Graph × TyMap)',
                'mutable': ['graph', 'cache', 'ty'],
                'patterns': [('self._graph', 'cache'),
                             ('nx.DiGraph()', '(⟨[], []⟩ : Graph)'),
                             ('self._name_to_variable.values()', 'self.variables'),
                             ('equation.atoms(Variable)', '(self.atoms equation)'),
                             ('sorted(__A, key=str)', '(Py.sortedByStr self.key {A})'),
                             ('self.find_variables_and_derivatives([equation.rhs])', '(self.refsOf equation)'),
                             ('__A.is_Derivative', '(self.isDerivative {A})'),
                             ('__A.free_symbols.pop()', '(self.stateOf {A})'),
                             ('__A.variables[0]', '(self.freeOf {A})'),
                             ('isinstance(equation.rhs, Quantity)', '(self.rhsIsQuantity equation)'),
                             ('str(__A)', '(self.key {A})'),
                             ('len(set(__A))', '(Py.distinctCount {A})'),
                             ('VariableType.STATE', '(some VT.state)'),
                             ('VariableType.FREE', '(some VT.free)'),
                             ('VariableType.PARAMETER', '(some VT.parameter)'),
                             ('VariableType.COMPUTED', '(some VT.computed)'),
                             ('__A.type', '(tyGet ty {A})')],
                'stmt_patterns': [('return self._graph', 'return (theGraph cache, cache, ty)'),
                                  ('return __A', 'return ({A}, cache, ty)'),
                                  ('self._graph = __A', 'cache := some {A}'),
                                  ('__A.type = __B', 'ty := tySet ty {A} {B}'),
                                  ('graph.add_node(__A, equation=equation)', 'graph := nxAddNode graph {A}'),
                                  ('graph.add_node(__A, equation=None, variable_type=__A.type)',
                                   'graph := nxAddNode graph {A}'),
                                  ('graph.add_edge(__A, __B)', 'graph := nxAddEdge graph {A} {B}'),
                                  ("graph.nodes[variable]['variable_type'] = variable.type", 'pure ()')]}]}
