import Cellml.Props.C05
import Cellml.Tie.Convert

/-! # C05 for the GENERATED `convert_expression_recursively`, closed by recursion

    `Cellml/Generated/Code/Convert.lean` is the body of `UnitCalculator.convert_expression_recursively` (units.py) with
    open recursion (`rec`). Here the recursion is closed: `convGen` calls the generated functional on itself
    (well-founded recursion on the size of the expression, the recursive call guarded by `esize x < esize e`).
    `gen_congr`: the functional calls `rec` only on `children e` (flat operands of n-ary nodes, pieces and conditions of a
    Piecewise, the Variables of a Derivative); `children_lt`: those are smaller, so the guard never fires;
    `convGen_eq`: on every hereditarily well-formed expression (`wfAll`) the closed generated function returns what the
    hand model `Convert.convert` returns (triple and exception class). The headline theorems of `Props/C05.lean` are
    then restated for `convGen`: `gen_convert_value`, `gen_convert_preserves`, `gen_convert_target`,
    `gen_convert_identity`, `gen_convert_rejects`. -/

set_option linter.constructorNameAsVariable false

namespace Cellml.Props.C05Gen
open Units Infer Convert Sem Cellml.Tie Cellml.Tie.PConvert Cellml.Gen

/-- size of an expression: the measure of the recursion (a `deriv` node counts its two Variables) -/
def esize : E → Nat
  | .add a b | .mul a b | .pow a b | .fnN _ a b | .rel _ a b | .and a b | .or a b => esize a + esize b + 1
  | .abs a | .floor a | .ceil a | .fn1 _ a | .not a => esize a + 1
  | .ite c t el => esize c + esize t + esize el + 1
  | .deriv .. => 2
  | _ => 1

/-- `UnitCalculator.convert_expression_recursively` as generated from units.py, with the recursive calls made by the
    function itself: well-founded recursion on the size of `expr`; a recursive call on something that is not smaller
    than the node would be python's RecursionError (there is none: `gen_congr` + `children_lt`). -/
def convGen (self : ConvView) (e : E) (t : PyUnit) : Except PyErr ConvRes :=
  Gen.Convert.convertExpressionRecursively self
    (fun x t' => if _h : esize x < esize e then convGen self x t' else throw ⟨"RecursionError"⟩) e t
termination_by esize e

/-- the sub-expressions on which the generated code makes its recursive calls: the FLAT operands of an n-ary node, all
    pieces and conditions of a Piecewise, the two Variables of a Derivative -/
def children : E → List E
  | .deriv v t => [.var v, .var t]
  | .ite c t el => (pwArgs (.ite c t el)).flatMap (fun p => [(pairOf p).1, (pairOf p).2])
  | e => args e

theorem forIn_congr_mem {σ : Type} (xs : List E) (F G : E → σ → Except PyErr (ForInStep σ))
    (h : ∀ a ∈ xs, ∀ s, F a s = G a s) (s : σ) : forIn xs s F = forIn xs s G := by
  induction xs generalizing s with
  | nil => rfl
  | cons a xs ih =>
    simp only [List.forIn_cons, h a (List.mem_cons_self ..)]
    cases G a s with
    | error e => rfl
    | ok r =>
      cases r with
      | done s' => rfl
      | yield s' => exact ih (fun a ha => h a (List.mem_cons_of_mem _ ha)) s'

theorem bind_forIn_congr {σ β : Type} (xs : List E) (F G : E → σ → Except PyErr (ForInStep σ)) (init : σ)
    (rest : σ → Except PyErr β) (h : ∀ a ∈ xs, ∀ s, F a s = G a s) :
    (forIn xs init F >>= rest) = (forIn xs init G >>= rest) := by
  rw [forIn_congr_mem xs F G h]

/-- **the generated functional calls `rec` only on the children of the node**: two `rec`s that agree there give the
    same result -/
theorem gen_congr (self : ConvView) (rec1 rec2 : E → PyUnit → Except PyErr ConvRes) (e : E) (t : PyUnit)
    (h : ∀ x ∈ children e, ∀ t', rec1 x t' = rec2 x t') :
    Gen.Convert.convertExpressionRecursively self rec1 e t = Gen.Convert.convertExpressionRecursively self rec2 e t := by
  unfold Gen.Convert.convertExpressionRecursively
  simp only [maybeConvertChild_eq]
  cases e <;>
    simp only [isMatrix, isSymbol, isDerivative, isMul, isPow, isAdd, isRelational, isPiecewise, isFunction, isNumber,
     isBoolean, isVariable, Py.truthy_bool, args, nargs, dNum, dWrt, dOrder, Bool.false_eq_true, if_false, if_true]
  case pow b x =>
    have h1 := h b (by simp [children, args])
    have h2 := h x (by simp [children, args])
    simp only [unpack2, bind, Except.bind, h1, h2]
  case deriv v t =>
    have h1 := h (.var v) (by simp [children])
    have h2 := h (.var t) (by simp [children])
    simp only [h1, h2]
    rfl
  case ite c t el =>
    apply bind_forIn_congr
    intro p hp s
    have h1 := h (pairOf p).1 (List.mem_flatMap.2 ⟨p, hp, by simp⟩)
    have h2 := h (pairOf p).2 (List.mem_flatMap.2 ⟨p, hp, by simp⟩)
    simp only [h1, h2]
  all_goals
    first
    | (apply bind_forIn_congr; intro a ha s; simp only [h a ha])
    | (split_ifs <;> first | rfl | (apply bind_forIn_congr; intro a ha s; simp only [h a ha]))

/-! ## the recursive calls are on strictly smaller expressions -/

theorem esize_pos (e : E) : 0 < esize e := by cases e <;> simp [esize]

theorem addArgs_le (e : E) : ∀ x ∈ addArgs e, esize x ≤ esize e := by
  induction e with
  | add a b iha _ =>
    intro x hx
    simp only [addArgs, List.mem_append, List.mem_singleton] at hx
    rcases hx with hx | rfl
    · have := iha x hx; simp only [esize]; omega
    · simp only [esize]; omega
  | _ => intro x hx; simp only [addArgs, List.mem_singleton] at hx; subst hx; exact Nat.le_refl _

theorem mulArgs_le (e : E) : ∀ x ∈ mulArgs e, esize x ≤ esize e := by
  induction e with
  | mul a b iha _ =>
    intro x hx
    simp only [mulArgs, List.mem_append, List.mem_singleton] at hx
    rcases hx with hx | rfl
    · have := iha x hx; simp only [esize]; omega
    · simp only [esize]; omega
  | _ => intro x hx; simp only [mulArgs, List.mem_singleton] at hx; subst hx; exact Nat.le_refl _

theorem andArgs_le (e : E) : ∀ x ∈ andArgs e, esize x ≤ esize e := by
  induction e with
  | and a b iha _ =>
    intro x hx
    simp only [andArgs, List.mem_append, List.mem_singleton] at hx
    rcases hx with hx | rfl
    · have := iha x hx; simp only [esize]; omega
    · simp only [esize]; omega
  | _ => intro x hx; simp only [andArgs, List.mem_singleton] at hx; subst hx; exact Nat.le_refl _

theorem orArgs_le (e : E) : ∀ x ∈ orArgs e, esize x ≤ esize e := by
  induction e with
  | or a b iha _ =>
    intro x hx
    simp only [orArgs, List.mem_append, List.mem_singleton] at hx
    rcases hx with hx | rfl
    · have := iha x hx; simp only [esize]; omega
    · simp only [esize]; omega
  | _ => intro x hx; simp only [orArgs, List.mem_singleton] at hx; subst hx; exact Nat.le_refl _

theorem fnArgs_le (f : String) (e : E) : ∀ x ∈ fnArgs f e, esize x ≤ esize e := by
  induction e with
  | fnN g a b iha _ =>
    intro x hx
    by_cases hfg : f = g
    · simp only [fnArgs, hfg, if_true, List.mem_append, List.mem_singleton] at hx
      rcases hx with hx | rfl
      · have := iha x (hfg ▸ hx); simp only [esize]; omega
      · simp only [esize]; omega
    · simp only [fnArgs, hfg, if_false, List.mem_singleton] at hx; subst hx; exact Nat.le_refl _
  | _ => intro x hx; simp only [fnArgs, List.mem_singleton] at hx; subst hx; exact Nat.le_refl _

theorem pwArgs_lt (e : E) : ∀ p ∈ pwArgs e, esize (pairOf p).1 < esize e ∧ esize (pairOf p).2 < esize e := by
  induction e with
  | ite c t el _ _ ih =>
    intro p hp
    simp only [pwArgs, List.mem_cons] at hp
    rcases hp with rfl | hp
    · simp only [mkPair, pairOf, esize]; omega
    · have := ih p hp; simp only [esize]; omega
  | _ => intro p hp; simp [pwArgs] at hp

/-- every recursive call of the generated code is on a strictly smaller expression -/
theorem children_lt (e : E) : ∀ x ∈ children e, esize x < esize e := by
  intro x hx
  cases e with
  | add a b =>
    simp only [children, args, addArgs, List.mem_append, List.mem_singleton] at hx
    rcases hx with hx | rfl
    · have := addArgs_le a x hx; simp only [esize]; omega
    · have := esize_pos a; simp only [esize]; omega
  | mul a b =>
    simp only [children, args, mulArgs, List.mem_append, List.mem_singleton] at hx
    rcases hx with hx | rfl
    · have := mulArgs_le a x hx; simp only [esize]; omega
    · have := esize_pos a; simp only [esize]; omega
  | and a b =>
    simp only [children, args, andArgs, List.mem_append, List.mem_singleton] at hx
    rcases hx with hx | rfl
    · have := andArgs_le a x hx; simp only [esize]; omega
    · have := esize_pos a; simp only [esize]; omega
  | or a b =>
    simp only [children, args, orArgs, List.mem_append, List.mem_singleton] at hx
    rcases hx with hx | rfl
    · have := orArgs_le a x hx; simp only [esize]; omega
    · have := esize_pos a; simp only [esize]; omega
  | fnN f a b =>
    simp only [children, args, fnArgs, if_true, List.mem_append, List.mem_singleton] at hx
    rcases hx with hx | rfl
    · have := fnArgs_le f a x hx; simp only [esize]; omega
    · have := esize_pos a; simp only [esize]; omega
  | ite c t el =>
    simp only [children, List.mem_flatMap] at hx
    obtain ⟨p, hp, hx⟩ := hx
    have := pwArgs_lt _ p hp
    simp only [List.mem_cons, List.mem_nil_iff, or_false] at hx
    rcases hx with rfl | rfl
    · exact this.1
    · exact this.2
  | pow b x' =>
    simp only [children, args, List.mem_cons, List.mem_nil_iff, or_false] at hx
    rcases hx with rfl | rfl <;> simp only [esize] <;> omega
  | rel r a b =>
    simp only [children, args, List.mem_cons, List.mem_nil_iff, or_false] at hx
    rcases hx with rfl | rfl <;> simp only [esize] <;> omega
  | deriv v t =>
    simp only [children, List.mem_cons, List.mem_nil_iff, or_false] at hx
    rcases hx with rfl | rfl <;> simp [esize]
  | abs a => simp only [children, args, List.mem_singleton] at hx; subst hx; simp [esize]
  | floor a => simp only [children, args, List.mem_singleton] at hx; subst hx; simp [esize]
  | ceil a => simp only [children, args, List.mem_singleton] at hx; subst hx; simp [esize]
  | fn1 f a => simp only [children, args, List.mem_singleton] at hx; subst hx; simp [esize]
  | not a => simp only [children, args, List.mem_singleton] at hx; subst hx; simp [esize]
  | _ => simp [children, args] at hx

/-! ## the closed generated function = the model, on every hereditarily well-formed expression -/

/-- **the closed generated function is the model.** `D` is any set of expressions closed under the recursion of the
    generated code in which every node is in the tie's domain `wfTop` (an image of a SymPy object). Well-founded
    induction on the size, `gen_congr` (the calls are on children only), `convert_tie` (the model is a fixpoint). -/
theorem convGen_eq_of_closed (reg : Registry) (Γ : VarEnv) (D : E → Prop)
    (hD : ∀ e, D e → wfTop e = true ∧ ∀ x ∈ children e, D x) :
    ∀ (n : Nat) (e : E), esize e < n → D e → ∀ t, convGen (convView reg Γ) e t = encConv (convert reg Γ e t) := by
  intro n
  induction n with
  | zero => intro e h; exact absurd h (Nat.not_lt_zero _)
  | succ n ih =>
    intro e hn he t
    rw [convGen, gen_congr _ _ (modelRec reg Γ) e t ?_, convert_tie reg Γ e t (hD e he).1]
    intro x hx t'
    have hlt := children_lt e x hx
    simp only [dif_pos hlt]
    exact ih x (by omega) ((hD e he).2 x hx) t'

/-- the decidable hereditary domain: EVERY sub-expression is in `wfTop` (Piecewise chains end in `undef`; the class
    names `floor` / `ceiling` / `Abs` are the constructors, never `fn1` / `fnN`) -/
def wfAll : E → Bool
  | .add a b | .mul a b | .pow a b | .rel _ a b | .and a b | .or a b => wfAll a && wfAll b
  | .fnN f a b => !Py.isIn f ["floor", "ceiling", "Abs"] && (wfAll a && wfAll b)
  | .fn1 f a => !Py.isIn f ["floor", "ceiling", "Abs"] && wfAll a
  | .abs a | .floor a | .ceil a | .not a => wfAll a
  | .ite c t el => isChain el && (wfAll c && (wfAll t && wfAll el))
  | _ => true

theorem wfAll_top (e : E) (h : wfAll e = true) : wfTop e = true := by
  cases e <;> simp_all [wfAll, wfTop]

theorem wfAll_addArgs (e : E) : wfAll e = true → ∀ x ∈ addArgs e, wfAll x = true := by
  induction e with
  | add a b iha _ =>
    intro h x hx
    simp only [wfAll, Bool.and_eq_true] at h
    simp only [addArgs, List.mem_append, List.mem_singleton] at hx
    rcases hx with hx | rfl
    · exact iha h.1 x hx
    · exact h.2
  | _ => intro h x hx; simp only [addArgs, List.mem_singleton] at hx; subst hx; exact h

theorem wfAll_mulArgs (e : E) : wfAll e = true → ∀ x ∈ mulArgs e, wfAll x = true := by
  induction e with
  | mul a b iha _ =>
    intro h x hx
    simp only [wfAll, Bool.and_eq_true] at h
    simp only [mulArgs, List.mem_append, List.mem_singleton] at hx
    rcases hx with hx | rfl
    · exact iha h.1 x hx
    · exact h.2
  | _ => intro h x hx; simp only [mulArgs, List.mem_singleton] at hx; subst hx; exact h

theorem wfAll_andArgs (e : E) : wfAll e = true → ∀ x ∈ andArgs e, wfAll x = true := by
  induction e with
  | and a b iha _ =>
    intro h x hx
    simp only [wfAll, Bool.and_eq_true] at h
    simp only [andArgs, List.mem_append, List.mem_singleton] at hx
    rcases hx with hx | rfl
    · exact iha h.1 x hx
    · exact h.2
  | _ => intro h x hx; simp only [andArgs, List.mem_singleton] at hx; subst hx; exact h

theorem wfAll_orArgs (e : E) : wfAll e = true → ∀ x ∈ orArgs e, wfAll x = true := by
  induction e with
  | or a b iha _ =>
    intro h x hx
    simp only [wfAll, Bool.and_eq_true] at h
    simp only [orArgs, List.mem_append, List.mem_singleton] at hx
    rcases hx with hx | rfl
    · exact iha h.1 x hx
    · exact h.2
  | _ => intro h x hx; simp only [orArgs, List.mem_singleton] at hx; subst hx; exact h

theorem wfAll_fnArgs (f : String) (e : E) : wfAll e = true → ∀ x ∈ fnArgs f e, wfAll x = true := by
  induction e with
  | fnN g a b iha _ =>
    intro h x hx
    by_cases hfg : f = g
    · simp only [fnArgs, hfg, if_true, List.mem_append, List.mem_singleton] at hx
      simp only [wfAll, Bool.and_eq_true] at h
      rcases hx with hx | rfl
      · exact iha h.2.1 x (hfg ▸ hx)
      · exact h.2.2
    · simp only [fnArgs, hfg, if_false, List.mem_singleton] at hx; subst hx; exact h
  | _ => intro h x hx; simp only [fnArgs, List.mem_singleton] at hx; subst hx; exact h

theorem wfAll_pwArgs (e : E) : wfAll e = true → ∀ p ∈ pwArgs e, wfAll (pairOf p).1 = true ∧ wfAll (pairOf p).2 = true := by
  induction e with
  | ite c t el _ _ ih =>
    intro h p hp
    simp only [wfAll, Bool.and_eq_true] at h
    simp only [pwArgs, List.mem_cons] at hp
    rcases hp with rfl | hp
    · exact ⟨h.2.2.1, h.2.1⟩
    · exact ih h.2.2.2 p hp
  | _ => intro _ p hp; simp [pwArgs] at hp

theorem wfAll_children (e : E) (h : wfAll e = true) : ∀ x ∈ children e, wfAll x = true := by
  intro x hx
  cases e with
  | add a b => exact wfAll_addArgs _ h x hx
  | mul a b => exact wfAll_mulArgs _ h x hx
  | and a b => exact wfAll_andArgs _ h x hx
  | or a b => exact wfAll_orArgs _ h x hx
  | fnN f a b => exact wfAll_fnArgs f _ h x hx
  | ite c t el =>
    simp only [children, List.mem_flatMap] at hx
    obtain ⟨p, hp, hx⟩ := hx
    have := wfAll_pwArgs _ h p hp
    simp only [List.mem_cons, List.mem_nil_iff, or_false] at hx
    rcases hx with rfl | rfl
    · exact this.1
    · exact this.2
  | pow b x' =>
    simp only [wfAll, Bool.and_eq_true] at h
    simp only [children, args, List.mem_cons, List.mem_nil_iff, or_false] at hx
    rcases hx with rfl | rfl
    · exact h.1
    · exact h.2
  | rel r a b =>
    simp only [wfAll, Bool.and_eq_true] at h
    simp only [children, args, List.mem_cons, List.mem_nil_iff, or_false] at hx
    rcases hx with rfl | rfl
    · exact h.1
    · exact h.2
  | deriv v t =>
    simp only [children, List.mem_cons, List.mem_nil_iff, or_false] at hx
    rcases hx with rfl | rfl <;> rfl
  | abs a => simp only [children, args, List.mem_singleton] at hx; subst hx; simpa [wfAll] using h
  | floor a => simp only [children, args, List.mem_singleton] at hx; subst hx; simpa [wfAll] using h
  | ceil a => simp only [children, args, List.mem_singleton] at hx; subst hx; simpa [wfAll] using h
  | not a => simp only [children, args, List.mem_singleton] at hx; subst hx; simpa [wfAll] using h
  | fn1 f a =>
    simp only [children, args, List.mem_singleton] at hx; subst hx
    simp only [wfAll, Bool.and_eq_true] at h; exact h.2
  | _ => simp [children, args] at hx

/-- **closed generated `convert_expression_recursively` = `Convert.convert`** for every hereditarily well-formed
    expression, every registry, environment and target (or `None`): same triple, same exception class -/
theorem convGen_eq (reg : Registry) (Γ : VarEnv) (e : E) (h : wfAll e = true) (t : Option Container) :
    convGen (convView reg Γ) e t = encConv (convert reg Γ e t) :=
  convGen_eq_of_closed reg Γ (fun e => wfAll e = true) (fun e he => ⟨wfAll_top e he, wfAll_children e he⟩)
    (esize e + 1) e (Nat.lt_succ_self _) h t

/-! ## the headline theorems of `Props/C05.lean`, for the closed GENERATED function -/

/-- a successful call of the generated function is a successful call of the model with the same three components -/
theorem convGen_ok_inv {reg : Registry} {Γ : VarEnv} {ex : E} (hw : wfAll ex = true) {tgt : Option Container}
    {e' : E} {wc : Bool} {u' : PyUnit} (h : convGen (convView reg Γ) ex tgt = .ok (e', wc, u')) :
    ∃ r, convert reg Γ ex tgt = .ok r ∧ e' = r.e ∧ wc = r.wc ∧ u' = some r.u := by
  rw [convGen_eq reg Γ ex hw tgt] at h
  cases hc : convert reg Γ ex tgt with
  | error err => rw [hc] at h; cases h
  | ok r =>
    rw [hc, encConv_ok] at h
    simp only [Except.ok.injEq, Prod.mk.injEq] at h
    exact ⟨r, rfl, h.1.symm, h.2.1.symm, h.2.2.symm⟩

/-- a failing call of the model is a failing call of the generated function, with the python class of the error -/
theorem convGen_error {reg : Registry} {Γ : VarEnv} {ex : E} (hw : wfAll ex = true) {tgt : Option Container}
    {err : UnitErr} (h : convert reg Γ ex tgt = .error err) :
    convGen (convView reg Γ) ex tgt = .error ⟨convCls err⟩ := by
  rw [convGen_eq reg Γ ex hw tgt, h]; rfl

section transfer
variable {K : Type} [Field K] [LinearOrder K] [IsStrictOrderedRing K]
variable (I : Interp K) (reg : Registry) (Γ : VarEnv) (ρ : Nat → K) (δ : Nat → Nat → K)

/-- `C05.convert_value` for the generated function: if the expression denotes the physical quantity `(x, d)` and the
    generated `convert_expression_recursively` returns `(new_expr, was_converted, actual_units)`, then `actual_units` is
    a unit `u`, and `new_expr` read as plain numbers in `u` IS that quantity -/
theorem gen_convert_value {ex : E} (hw : wfAll ex = true) {tgt : Option Container} {e' : E} {wc : Bool} {u' : PyUnit}
    {x : K} {d : Dims} (h : convGen (convView reg Γ) ex tgt = .ok (e', wc, u'))
    (hp : evalPhys I reg Γ ρ δ ex = some (x, d)) :
    ∃ u, u' = some u ∧ evalNum I ρ δ e' * I.φ (scaleOf reg u) = x ∧ dimsOf reg u ≃ d := by
  obtain ⟨r, hr, rfl, rfl, rfl⟩ := convGen_ok_inv hw h
  exact ⟨r.u, rfl, C05.convert_value I reg Γ ρ δ hr hp⟩

/-- `C05.convert_preserves` (headline form of (a)) for the generated function -/
theorem gen_convert_preserves {ex : E} (hw : wfAll ex = true) (hs : C05.arithS ex = true) {tgt : Option Container}
    {e' : E} {wc : Bool} {u' : PyUnit} (h : convGen (convView reg Γ) ex tgt = .ok (e', wc, u')) :
    ∃ u x d, u' = some u ∧ evalPhys I reg Γ ρ δ ex = some (x, d) ∧
      evalNum I ρ δ e' * I.φ (scaleOf reg u) = x ∧ dimsOf reg u ≃ d := by
  obtain ⟨r, hr, rfl, rfl, rfl⟩ := convGen_ok_inv hw h
  obtain ⟨x, d, hp, hv⟩ := C05.convert_preserves I reg Γ ρ δ hs hr
  exact ⟨r.u, x, d, rfl, hp, hv⟩

/-- `C05.convert_rejects` for the generated function: an expression (of the operators with a physical value) that
    denotes no physical quantity is never converted - the generated function raises, for every target -/
theorem gen_convert_rejects {ex : E} (hw : wfAll ex = true) (hs : C05.arithS ex = true)
    (hn : evalPhys I reg Γ ρ δ ex = none) (tgt : Option Container) :
    ∃ err, convGen (convView reg Γ) ex tgt = .error err ∧
      ∃ uerr, err = ⟨convCls uerr⟩ ∧ Convert.errClass uerr = true := by
  obtain ⟨uerr, he⟩ := C05.convert_rejects I reg Γ ρ δ hs hn tgt
  exact ⟨⟨convCls uerr⟩, convGen_error hw he, uerr, rfl, C05.convert_error_class he⟩

end transfer

/-- `C05.convert_target` for the generated function: with an explicit target the returned `actual_units` is the
    target -/
theorem gen_convert_target {reg : Registry} {Γ : VarEnv} {ex : E} (hw : wfAll ex = true) {t : Container}
    {e' : E} {wc : Bool} {u' : PyUnit} (h : convGen (convView reg Γ) ex (some t) = .ok (e', wc, u')) : u' = some t := by
  obtain ⟨r, hr, rfl, rfl, rfl⟩ := convGen_ok_inv hw h
  rw [C05.convert_target hr]

/-- `C05.convert_identity` for the generated function: `was_converted = False` ⇒ the returned expression is the
    argument. (The model's fourth field `same` - python object identity - has no counterpart in the returned triple;
    by `C05.convert_identity` it is `!was_converted`.) -/
theorem gen_convert_identity {reg : Registry} {Γ : VarEnv} {ex : E} (hw : wfAll ex = true) {tgt : Option Container}
    {e' : E} {wc : Bool} {u' : PyUnit} (h : convGen (convView reg Γ) ex tgt = .ok (e', wc, u')) (hwc : wc = false) :
    e' = ex := by
  obtain ⟨r, hr, rfl, rfl, rfl⟩ := convGen_ok_inv hw h
  exact ((C05.convert_identity hr).1 hwc).1

/-! examples: the generated loops see flat operand lists -/
example : args (.add (.add (.var 0) (.var 1)) (.var 2)) = [.var 0, .var 1, .var 2] := rfl
example : args (.fnN "Max" (.fnN "Max" (.var 0) (.var 1)) (.var 2)) = [.var 0, .var 1, .var 2] := by decide
example : args (.fnN "Max" (.fnN "Min" (.var 0) (.var 1)) (.var 2)) = [.fnN "Min" (.var 0) (.var 1), .var 2] := by decide

end Cellml.Props.C05Gen
