import Mathlib.Algebra.Field.Basic
import Mathlib.Tactic.Ring
import Mathlib.Tactic.FieldSimp
import Cellml.C11.Groups5

/-! C11 — meaning of the SymPy tree and of the emitted Python, over an arbitrary field `K`.

  Transcendental functions, the power function, comparisons and the values of names and number tokens are
  uninterpreted (`Sem`); what is assumed about them (`Laws`) are hypotheses of the theorems, not axioms:
  number tokens denote their numbers, `v**-y = 1/(v**y)`, `v**1 = v`, `math.sqrt(v) = v**(1/2)`, `True`/`False` are
  1/0 (CPython: `bool` is an `int`; comparisons between truth values are numeric), and every table entry sends a SymPy
  class to the Python function of the same meaning. -/
namespace C11

structure Sem (K : Type) where
  atomNum : String → K            -- value of a name or number token
  atomBool : String → Bool
  powK : K → K → K
  pyFn : String → List K → K      -- Python functions, by emitted name
  symFn : String → List K → K     -- SymPy functions, by class name
  cmpK : Rel → K → K → Bool

structure V (K : Type) where
  num : K
  bool : Bool
  nums : List K := []
  bools : List Bool := []

variable {K : Type} [Field K]

def b2k (b : Bool) : K := if b then 1 else 0

def sumK : List K → K
  | [] => 0
  | x :: xs => x + sumK xs

def prodK : List K → K
  | [] => 1
  | x :: xs => x * prodK xs

/-- what CPython computes for the layout tree -/
def evD (S : Sem K) : Doc → V K
  | .atom s => ⟨S.atomNum s, S.atomBool s, [], []⟩
  | .call f a => ⟨S.pyFn f (evD S a).nums, false, [], []⟩
  | .neg d => ⟨-(evD S d).num, false, [], []⟩
  | .bin .add a b => ⟨(evD S a).num + (evD S b).num, false, [], []⟩
  | .bin .sub a b => ⟨(evD S a).num - (evD S b).num, false, [], []⟩
  | .bin .mul a b => ⟨(evD S a).num * (evD S b).num, false, [], []⟩
  | .bin .div a b => ⟨(evD S a).num / (evD S b).num, false, [], []⟩
  | .bin .pow a b => ⟨S.powK (evD S a).num (evD S b).num, false, [], []⟩
  | .cmp r a b => ⟨b2k (S.cmpK r (evD S a).num (evD S b).num), S.cmpK r (evD S a).num (evD S b).num, [], []⟩
  | .and a b => ⟨b2k ((evD S a).bool && (evD S b).bool), (evD S a).bool && (evD S b).bool, [], []⟩
  | .or a b => ⟨b2k ((evD S a).bool || (evD S b).bool), (evD S a).bool || (evD S b).bool, [], []⟩
  | .ite t c e => ⟨if (evD S c).bool then (evD S t).num else (evD S e).num,
                   if (evD S c).bool then (evD S t).bool else (evD S e).bool, [], []⟩
  | .paren d => evD S d
  | .nil => ⟨0, false, [], []⟩
  | .cons h t => ⟨0, false, (evD S h).num :: (evD S t).nums, (evD S h).bool :: (evD S t).bools⟩

/-- first value whose condition holds; `float('nan')` when none does -/
def pwVal (dflt : K) : List K → List Bool → K
  | v :: vs, c :: cs => if c then v else pwVal dflt vs cs
  | _, _ => dflt

/-- what the SymPy expression means -/
def ev (S : Sem K) : E → V K
  | .sym n _ => ⟨S.atomNum n, S.atomBool n, [], []⟩
  | .int n => ⟨(n : K), false, [], []⟩
  | .rat p q => ⟨(p : K) / (q : K), false, [], []⟩
  | .flt t _ => ⟨S.atomNum t, false, [], []⟩
  | .pi => ⟨S.atomNum (litName "pi"), false, [], []⟩
  | .e1 => ⟨S.atomNum (litName "e"), false, [], []⟩
  | .tt => ⟨1, true, [], []⟩
  | .ff => ⟨0, false, [], []⟩
  | .add a => ⟨sumK (ev S a).nums, false, [], []⟩
  | .mul a => ⟨prodK (ev S a).nums, false, [], []⟩
  | .pow b x => ⟨S.powK (ev S b).num (ev S x).num, false, [], []⟩
  | .fn name a => ⟨S.symFn name (ev S a).nums, false, [], []⟩
  | .rel r a b => ⟨b2k (S.cmpK r (ev S a).num (ev S b).num), S.cmpK r (ev S a).num (ev S b).num, [], []⟩
  | .and a => ⟨b2k ((ev S a).bools.all id), (ev S a).bools.all id, [], []⟩
  | .or a => ⟨b2k ((ev S a).bools.any id), (ev S a).bools.any id, [], []⟩
  | .pw ps => ⟨pwVal (evD S nanDoc).num (ev S ps).nums (ev S ps).bools, false, [], []⟩
  | .pair v c => ⟨(ev S v).num, (ev S c).bool, [], []⟩
  | .deriv x t => ⟨S.pyFn "Derivative" [S.atomNum x, S.atomNum t], false, [], []⟩
  | .other _ => ⟨0, false, [], []⟩
  | .nil => ⟨0, false, [], []⟩
  | .cons h t => ⟨0, false, (ev S h).num :: (ev S t).nums, (ev S h).bool :: (ev S t).bools⟩

structure Laws (S : Sem K) : Prop where
  atom_nat : ∀ n : Nat, S.atomNum (toString n) = (n : K)
  atom_neg : ∀ t : String, headMinus t = true → S.atomNum t = -S.atomNum (tailStr t)
  true_num : S.atomNum "True" = 1
  false_num : S.atomNum "False" = 0
  true_bool : S.atomBool "True" = true
  false_bool : S.atomBool "False" = false
  pow_neg : ∀ v y, S.powK v (-y) = (S.powK v y)⁻¹
  pow_one : ∀ v, S.powK v 1 = v
  sqrt_def : ∀ v, S.pyFn sqrtName [v] = S.powK v (1 / 2)
  fn_table : ∀ n f, fnName n = some f → S.symFn n = S.pyFn f

end C11
