import Cellml.C06.Spec

/-! C06 (core Lean only): what `convert_variable` does to the variable list — names, units, initial values, cmeta ids.
    No invariant is needed here: after `_convert_variable_instance` variables are only appended. -/

namespace Model.CV
open Model

/-- `s'` has the variables of `s`, unchanged, possibly followed by new ones, and the same cmeta map -/
def Ext (s s' : CState) : Prop := (∃ l, s'.vars = s.vars ++ l) ∧ s'.cmetaMap = s.cmetaMap

theorem Ext.refl (s : CState) : Ext s s := ⟨⟨[], by simp⟩, rfl⟩

theorem Ext.trans {a b c : CState} (h₁ : Ext a b) (h₂ : Ext b c) : Ext a c := by
  obtain ⟨⟨l₁, e₁⟩, m₁⟩ := h₁
  obtain ⟨⟨l₂, e₂⟩, m₂⟩ := h₂
  exact ⟨⟨l₁ ++ l₂, by rw [e₂, e₁, List.append_assoc]⟩, m₂.trans m₁⟩

theorem Ext.of_eq {s s' : CState} (hv : s'.vars = s.vars) (hc : s'.cmetaMap = s.cmetaMap) : Ext s s' :=
  ⟨⟨[], by simp [hv]⟩, hc⟩

theorem addEq_vars (s : CState) (e : CEqn) (c : Bool) : (addEq s e c).vars = s.vars ∧ (addEq s e c).cmetaMap = s.cmetaMap := by
  unfold addEq; split <;> split <;> exact ⟨rfl, rfl⟩

theorem removeEq_vars (s : CState) (e : CEqn) :
    (removeEq s e).vars = s.vars ∧ (removeEq s e).cmetaMap = s.cmetaMap := by
  unfold removeEq
  split
  · split <;> split <;> exact ⟨rfl, rfl⟩
  · exact ⟨rfl, rfl⟩

theorem ext_addEq (s : CState) (e : CEqn) (c : Bool) : Ext s (addEq s e c) :=
  Ext.of_eq (addEq_vars s e c).1 (addEq_vars s e c).2

theorem ext_removeEq (s : CState) (e : CEqn) : Ext s (removeEq s e) :=
  Ext.of_eq (removeEq_vars s e).1 (removeEq_vars s e).2

theorem ext_addVariable (s : CState) (n : String) (u : U) (i : Option Rat) : Ext s (addVariable s n u i).1 := by
  unfold addVariable; split
  · exact Ext.refl _ |> fun h => ⟨h.1, rfl⟩
  · exact ⟨⟨_, rfl⟩, rfl⟩

theorem ext_removeOdeAssign (s : CState) (ode : CEqn) (x : Nat) : Ext s (removeOdeAssign s ode x).1 := by
  unfold removeOdeAssign
  exact (ext_addVariable s _ _ _).trans ((ext_removeEq _ _).trans (ext_addEq _ _ _))

theorem ext_convertFreeDeriv (s : CState) (ode : CEqn) (nv : Nat) (cfq : X) : Ext s (convertFreeDeriv s ode nv cfq).1 := by
  unfold convertFreeDeriv; split
  · exact (ext_removeOdeAssign s ode _).trans (ext_addEq _ _ _)
  · exact Ext.refl _

theorem ext_convertStateDeriv (s : CState) (v nv : Nat) (cfq : X) : Ext s (convertStateDeriv s v nv cfq).1 := by
  unfold convertStateDeriv; split
  · split
    · exact (ext_removeOdeAssign s _ _).trans (ext_addEq _ _ _)
    · exact Ext.refl _
  · exact Ext.of_eq rfl rfl

theorem ext_freeStep (v nv : Nat) (cfq : X) (acc : CState × Rep) (ode : CEqn) : Ext acc.1 (freeStep v nv cfq acc ode).1 := by
  unfold freeStep; split
  · split
    · exact ext_convertFreeDeriv _ _ _ _
    · exact Ext.of_eq rfl rfl
  · exact Ext.refl _

theorem ext_fold_freeStep (v nv : Nat) (cfq : X) : ∀ (L : List CEqn) (acc : CState × Rep),
    Ext acc.1 (L.foldl (freeStep v nv cfq) acc).1
  | [], acc => Ext.refl _
  | ode :: L, acc => (ext_freeStep v nv cfq acc ode).trans (ext_fold_freeStep v nv cfq L _)

theorem ext_replaceRefs (s : CState) (rep : Rep) : Ext s (replaceRefs s rep) := by
  unfold replaceRefs
  generalize s.equations = L
  induction L generalizing s with
  | nil => exact Ext.refl _
  | cons e L ih =>
    simp only [List.foldl_cons]
    refine Ext.trans ?_ (ih _)
    split
    · exact (ext_removeEq _ _).trans (ext_addEq _ _ _)
    · exact Ext.refl _

/-- after `_convert_variable_instance`, `convert_variable` only appends variables -/
theorem ext_convertVariable (s : CState) (v : Nat) (u : U) (cf : Rat) (dir : Dir) (move : Bool) (hcf : cf ≠ 1) :
    Ext (convertInstance s v cf u dir move).1 (convertVariable s v u cf dir move).1 := by
  unfold convertVariable
  rw [if_neg hcf]
  cases dir with
  | output => exact Ext.refl _
  | input =>
    dsimp only
    refine Ext.trans (b := (statePhase (hasKey v s.odeDef) (convertInstance s v cf u .input move).1 v
      (convertInstance s v cf u .input move).2 (.lit cf (u.div (unitOfV s v)))).1) ?_ (Ext.trans
      (b := (freePhase (getFree s == some v) (statePhase (hasKey v s.odeDef) (convertInstance s v cf u .input move).1 v
        (convertInstance s v cf u .input move).2 (.lit cf (u.div (unitOfV s v)))) v
        (convertInstance s v cf u .input move).2 (.lit cf (u.div (unitOfV s v)))).1) ?_ ?_)
    · unfold statePhase; split
      · exact ext_convertStateDeriv _ _ _ _
      · exact Ext.refl _
    · unfold freePhase; split
      · exact ext_fold_freeStep _ _ _ _ _
      · exact Ext.refl _
    · unfold replacePhase; split
      · exact Ext.refl _
      · exact ext_replaceRefs _ _

/-- the variable `_convert_variable_instance` creates -/
def newVar (s : CState) (v : Nat) (u : U) (cf : Rat) (dir : Dir) : CVar :=
  ⟨freshName s (nameOfV s v ++ "_converted"), u, newInit s v cf dir, none⟩

/-- the variable list after the optional `transfer_cmeta_id` -/
def varsAfterTransfer (s : CState) (v : Nat) (x : CVar) (move : Bool) : List CVar :=
  match cmetaOfV s v, move with
  | some c, true => setV (setV (s.vars ++ [x]) s.vars.length (fun y => { y with cmeta := some c })) v
                      (fun y => { y with cmeta := none })
  | _, _ => s.vars ++ [x]

theorem cmetaOfV_append (s : CState) (x : CVar) (v : Nat) (hv : v < s.vars.length) :
    cmetaOfV { s with vars := s.vars ++ [x] } v = cmetaOfV s v := by
  simp [cmetaOfV, List.getElem?_append_left hv]

theorem instInput_vars (s2 : CState) (v nv : Nat) (cfq : X) :
    (instInput s2 v nv cfq).vars = setV s2.vars v (fun x => { x with init := none }) ∧
    (instInput s2 v nv cfq).cmetaMap = s2.cmetaMap := by
  unfold instInput
  cases s2.varDef.lookup v with
  | none => exact ⟨(addEq_vars _ _ _).1, (addEq_vars _ _ _).2⟩
  | some oe =>
    refine ⟨(addEq_vars _ _ _).1.trans ?_, (addEq_vars _ _ _).2.trans ?_⟩
    · show setV (addEq (removeEq s2 oe) _ true).vars v _ = _
      rw [(addEq_vars _ _ _).1, (removeEq_vars _ _).1]
    · show (addEq (removeEq s2 oe) _ true).cmetaMap = _
      rw [(addEq_vars _ _ _).2, (removeEq_vars _ _).2]

/-- the variable list and the cmeta map after `_convert_variable_instance` -/
theorem convertInstance_vars (s : CState) (v : Nat) (hv : v < s.vars.length) (cf : Rat) (u : U) (dir : Dir)
    (move : Bool) :
    (convertInstance s v cf u dir move).1.vars =
      (match dir with
       | .input => setV (varsAfterTransfer s v (newVar s v u cf dir) move) v (fun x => { x with init := none })
       | .output => varsAfterTransfer s v (newVar s v u cf dir) move) ∧
    (convertInstance s v cf u dir move).1.cmetaMap =
      (match cmetaOfV s v, move with
       | some c, true => insertKey c s.vars.length s.cmetaMap
       | _, _ => s.cmetaMap) := by
  unfold convertInstance
  rw [addVariable_eq _ _ _ _ (freshName_fresh s _)]
  dsimp only
  have hx : (⟨freshName s (nameOfV s v ++ "_converted"), u, newInit s v cf dir, none⟩ : CVar) = newVar s v u cf dir := rfl
  rw [hx]
  have hnew : cmetaOfV { s with vars := s.vars ++ [newVar s v u cf dir] } s.vars.length = none :=
    cmetaOfV_new s _ rfl
  have hs2 : (if (cmetaOfV { s with vars := s.vars ++ [newVar s v u cf dir] } v).isSome && move
        then transferCmeta { s with vars := s.vars ++ [newVar s v u cf dir] } v s.vars.length
        else { s with vars := s.vars ++ [newVar s v u cf dir] }) =
      { s with vars := varsAfterTransfer s v (newVar s v u cf dir) move,
               cmetaMap := (match cmetaOfV s v, move with
                 | some c, true => insertKey c s.vars.length s.cmetaMap
                 | _, _ => s.cmetaMap) } := by
    rw [cmetaOfV_append s _ v hv]
    cases hc : cmetaOfV s v with
    | none => simp [varsAfterTransfer, hc]
    | some c =>
      cases move with
      | false => simp [varsAfterTransfer, hc]
      | true =>
        simp only [Option.isSome_some, Bool.and_self, if_true, varsAfterTransfer, hc]
        rw [transferCmeta_eq _ v s.vars.length c (by rw [cmetaOfV_append s _ v hv]; exact hc) hnew]
  rw [hs2]
  cases dir with
  | output => exact ⟨(addEq_vars _ _ _).1, (addEq_vars _ _ _).2⟩
  | input => exact instInput_vars _ _ _ _

theorem length_varsAfterTransfer (s : CState) (v : Nat) (x : CVar) (move : Bool) :
    (varsAfterTransfer s v x move).length = s.vars.length + 1 := by
  unfold varsAfterTransfer; split <;> simp [length_setV]

theorem getElem?_varsAfterTransfer (s : CState) (v : Nat) (hv : v < s.vars.length) (x : CVar) (hx : x.cmeta = none)
    (move : Bool) :
    (varsAfterTransfer s v x move)[s.vars.length]? = some { x with cmeta := if move then cmetaOfV s v else none } ∧
    (varsAfterTransfer s v x move)[v]? =
      (s.vars[v]?).map (fun y => { y with cmeta := if move then none else y.cmeta }) ∧
    (∀ i, i < s.vars.length → i ≠ v → (varsAfterTransfer s v x move)[i]? = s.vars[i]?) := by
  have hvn : v ≠ s.vars.length := by omega
  have hlast : (s.vars ++ [x])[s.vars.length]? = some x := by simp
  have hold : ∀ i, i < s.vars.length → (s.vars ++ [x])[i]? = s.vars[i]? := fun i hi => List.getElem?_append_left hi
  have hxe : x = { x with cmeta := none } := by
    obtain ⟨xn, xu, xi, xc⟩ := x
    simp only at hx; subst hx; rfl
  cases hc : cmetaOfV s v with
  | none =>
    have hvc : (s.vars[v]?).map (fun y => ({ y with cmeta := if move then none else y.cmeta } : CVar)) = s.vars[v]? := by
      unfold cmetaOfV at hc
      cases hg : s.vars[v]? with
      | none => rfl
      | some y =>
        rw [hg] at hc; simp only [Option.bind_some] at hc
        obtain ⟨yn, yu, yi, yc⟩ := y
        simp only at hc; subst hc
        cases move <;> rfl
    simp only [varsAfterTransfer, hc]
    refine ⟨by rw [hlast]; cases move <;> simp [← hxe], by rw [hold v hv, hvc], fun i hi _ => hold i hi⟩
  | some c =>
    cases move with
    | false =>
      simp only [varsAfterTransfer, hc]
      refine ⟨by rw [hlast]; simp [← hxe], ?_, fun i hi _ => hold i hi⟩
      rw [hold v hv]; cases s.vars[v]? <;> simp
    | true =>
      simp only [varsAfterTransfer, hc]
      refine ⟨?_, ?_, ?_⟩
      · rw [getElem?_setV, if_neg (Ne.symm hvn), getElem?_setV, if_pos rfl, hlast]; simp
      · rw [getElem?_setV, if_pos rfl, getElem?_setV, if_neg hvn, hold v hv]; simp
      · intro i hi hiv
        rw [getElem?_setV, if_neg hiv, getElem?_setV, if_neg (by omega), hold i hi]

-- ================================================================================================ names stay distinct
theorem names_setV (vs : List CVar) (i : Nat) (f : CVar → CVar) (hf : ∀ x, (f x).name = x.name) :
    (setV vs i f).map CVar.name = vs.map CVar.name := by
  apply List.ext_getElem?
  intro j
  rw [List.getElem?_map, List.getElem?_map, getElem?_setV]
  by_cases h : j = i
  · rw [if_pos h]; cases vs[j]? <;> simp [hf]
  · rw [if_neg h]

/-- the operation keeps the variable names distinct -/
def KeepsNames (s s' : CState) : Prop := (names s).Nodup → (names s').Nodup

theorem KeepsNames.of_vars {s s' : CState} (h : s'.vars = s.vars) : KeepsNames s s' := by
  intro hn; unfold names; rw [h]; exact hn

theorem keeps_addVariable_fresh (s : CState) (base : String) (u : U) (i : Option Rat) :
    KeepsNames s (addVariable s (freshName s base) u i).1 := by
  intro hn
  rw [addVariable_eq _ _ _ _ (freshName_fresh s base)]
  show (List.map CVar.name (s.vars ++ [_])).Nodup
  rw [List.map_append, List.nodup_append]
  refine ⟨hn, by simp, ?_⟩
  intro a ha b hb
  simp only [List.map_cons, List.map_nil, List.mem_cons, List.not_mem_nil, or_false] at hb
  rw [hb]; intro hab; rw [hab] at ha
  exact freshName_fresh s base ha

theorem keeps_removeOdeAssign (s : CState) (ode : CEqn) (x : Nat) : KeepsNames s (removeOdeAssign s ode x).1 := by
  intro hn
  unfold removeOdeAssign
  have := keeps_addVariable_fresh s (nameOfV s x ++ "_orig_deriv") (lhsUnit s ode.lhs) none hn
  exact KeepsNames.of_vars (((addEq_vars _ _ _).1).trans (removeEq_vars _ _).1) this

theorem keeps_convertFreeDeriv (s : CState) (ode : CEqn) (nv : Nat) (cfq : X) :
    KeepsNames s (convertFreeDeriv s ode nv cfq).1 := by
  intro hn; unfold convertFreeDeriv; split
  · exact KeepsNames.of_vars (addEq_vars _ _ _).1 (keeps_removeOdeAssign s ode _ hn)
  · exact hn

theorem keeps_convertStateDeriv (s : CState) (v nv : Nat) (cfq : X) : KeepsNames s (convertStateDeriv s v nv cfq).1 := by
  intro hn; unfold convertStateDeriv; split
  · split
    · exact KeepsNames.of_vars (addEq_vars _ _ _).1 (keeps_removeOdeAssign s _ _ hn)
    · exact hn
  · exact hn

theorem keeps_freeStep (v nv : Nat) (cfq : X) (acc : CState × Rep) (ode : CEqn) :
    KeepsNames acc.1 (freeStep v nv cfq acc ode).1 := by
  intro hn; unfold freeStep; split
  · split
    · exact keeps_convertFreeDeriv _ _ _ _ hn
    · exact hn
  · exact hn

theorem keeps_fold_freeStep (v nv : Nat) (cfq : X) : ∀ (L : List CEqn) (acc : CState × Rep),
    KeepsNames acc.1 (L.foldl (freeStep v nv cfq) acc).1
  | [], _ => fun hn => hn
  | ode :: L, acc => fun hn => keeps_fold_freeStep v nv cfq L _ (keeps_freeStep v nv cfq acc ode hn)

theorem replaceRefs_vars (s : CState) (rep : Rep) : (replaceRefs s rep).vars = s.vars := by
  unfold replaceRefs
  generalize s.equations = L
  induction L generalizing s with
  | nil => rfl
  | cons e L ih =>
    simp only [List.foldl_cons]
    rw [ih]
    split
    · exact ((addEq_vars _ _ _).1).trans (removeEq_vars _ _).1
    · rfl

theorem keeps_replaceRefs (s : CState) (rep : Rep) : KeepsNames s (replaceRefs s rep) :=
  KeepsNames.of_vars (replaceRefs_vars s rep)

theorem names_convertInstance (s : CState) (v : Nat) (hv : v < s.vars.length) (cf : Rat) (u : U) (dir : Dir)
    (move : Bool) :
    names (convertInstance s v cf u dir move).1 = names s ++ [freshName s (nameOfV s v ++ "_converted")] := by
  have hvt : (varsAfterTransfer s v (newVar s v u cf dir) move).map CVar.name =
      s.vars.map CVar.name ++ [freshName s (nameOfV s v ++ "_converted")] := by
    unfold varsAfterTransfer
    split
    · rw [names_setV _ _ (fun y => { y with cmeta := none }) (fun _ => rfl),
          names_setV _ _ (fun y => { y with cmeta := some _ }) (fun _ => rfl)]; simp [newVar]
    · simp [newVar]
  unfold names
  rw [(convertInstance_vars s v hv cf u dir move).1]
  cases dir with
  | input =>
    show List.map CVar.name (setV _ v (fun x => { x with init := none })) = _
    rw [names_setV _ _ (fun x => { x with init := none }) (fun _ => rfl)]; exact hvt
  | output => exact hvt

/-- **the new names never clash**: if the variable names of the model are distinct, they still are after
    `convert_variable` (the `…_converted` and every `…_orig_deriv` variable get names no variable has) -/
theorem keeps_convertVariable (s : CState) (v : Nat) (hv : v < s.vars.length) (u : U) (cf : Rat) (dir : Dir)
    (move : Bool) : KeepsNames s (convertVariable s v u cf dir move).1 := by
  intro hn
  unfold convertVariable
  split
  · exact hn
  · have h1 : (names (convertInstance s v cf u dir move).1).Nodup := by
      rw [names_convertInstance s v hv cf u dir move, List.nodup_append]
      refine ⟨hn, by simp, ?_⟩
      intro a ha b hb
      simp only [List.mem_cons, List.not_mem_nil, or_false] at hb
      rw [hb]; intro hab; rw [hab] at ha
      exact freshName_fresh s _ ha
    cases dir with
    | output => exact h1
    | input =>
      dsimp only
      have h2 : (names (statePhase (hasKey v s.odeDef) (convertInstance s v cf u .input move).1 v
          (convertInstance s v cf u .input move).2 (.lit cf (u.div (unitOfV s v)))).1).Nodup := by
        unfold statePhase; split
        · exact keeps_convertStateDeriv _ _ _ _ h1
        · exact h1
      have h3 : (names (freePhase (getFree s == some v) (statePhase (hasKey v s.odeDef)
          (convertInstance s v cf u .input move).1 v (convertInstance s v cf u .input move).2
          (.lit cf (u.div (unitOfV s v)))) v (convertInstance s v cf u .input move).2
          (.lit cf (u.div (unitOfV s v)))).1).Nodup := by
        unfold freePhase; split
        · exact keeps_fold_freeStep _ _ _ _ _ h2
        · exact h2
      unfold replacePhase; split
      · exact h3
      · exact keeps_replaceRefs _ _ h3

end Model.CV
