import Cellml.C02.Model

/-! # C02 — two semantics over `Rat`

    * `evalMml I t` : the value MathML 2 (chapter 4) assigns to a content tree, written directly on `Mml`:
      n-ary plus/times (identities for no operand), unary/binary minus, divide, power, root with optional `<degree>`
      first (default 2), log with optional `<logbase>` first (default 10), n-ary relations as the conjunction of the
      adjacent pairs, boolean connectives, first-true `<piece>` with `<otherwise>` last, constants, `<cn>` plain and
      e-notation. `none` = no value (wrong arity, ill-sorted, misplaced qualifier, undefined operation, unsupported).
    * `evalSy I e` : the value of the SymPy term the transpiler builds (`Sy`), `none` for non-expressions
      (classes, closures, tuples, lists).

    Both are parameterised by an interpretation `I`: values of the identifiers (number or truth value), the unary real
    functions by NAME (`fn`), real powers (`pow`), named constants — transcendental functions are uninterpreted, their
    placement is what the theorems are about. `Meaning` is the common vocabulary: `mmlMeaning` (hand-written from the
    MathML 2 specification) says what each element means, `syMeaning` (modelled SymPy) what each class computes;
    `table_sound` in `Props/C02` compares the two over the GENERATED operator table.  Core Lean only. -/

namespace C02

inductive Val where
  | num (x : Rat)
  | bool (b : Bool)
deriving DecidableEq, Repr

structure Interp where
  var : String → Val
  fn : String → Rat → Rat
  pow : Rat → Rat → Rat
  constant : String → Rat

/-- what an operator computes, independently of how MathML or SymPy call it -/
inductive Meaning where
  | add | mul | and | or | xor | not
  | eq | ne | lt | le | gt | ge
  | abs | floor | ceiling | max | min
  | mod            -- a − b·⌊a/b⌋ : result has the sign of the divisor (sympy.Mod, Python %)
  | rem            -- a − b·trunc(a/b) : result has the sign of the dividend (MathML rem, C fmod)
  | fn (name : String)
  | constant (name : String)
  | tt | ff
deriving DecidableEq, Repr

def nums : List Val → Option (List Rat)
  | [] => some []
  | .num x :: r => (nums r).map (x :: ·)
  | _ => none

def bools : List Val → Option (List Bool)
  | [] => some []
  | .bool b :: r => (bools r).map (b :: ·)
  | _ => none

def ratAbs (x : Rat) : Rat := if x < 0 then -x else x
def ratMax (a b : Rat) : Rat := if a < b then b else a
def ratMin (a b : Rat) : Rat := if b < a then b else a
def ratTrunc (q : Rat) : Int := if q < 0 then q.ceil else q.floor

namespace Meaning

def apply (I : Interp) : Meaning → List Val → Option Val
  | add, vs => (nums vs).map fun xs => .num (xs.foldr (· + ·) 0)
  | mul, vs => (nums vs).map fun xs => .num (xs.foldr (· * ·) 1)
  | and, vs => (bools vs).map fun bs => .bool (bs.foldr (· && ·) true)
  | or, vs => (bools vs).map fun bs => .bool (bs.foldr (· || ·) false)
  | xor, vs => (bools vs).map fun bs => .bool (bs.foldr Bool.xor false)
  | not, [.bool b] => some (.bool !b)
  | eq, [.num a, .num b] => some (.bool (a == b))
  | eq, [.bool a, .bool b] => some (.bool (a == b))
  | ne, [.num a, .num b] => some (.bool (a != b))
  | ne, [.bool a, .bool b] => some (.bool (a != b))
  | lt, [.num a, .num b] => some (.bool (a < b))
  | le, [.num a, .num b] => some (.bool (a ≤ b))
  | gt, [.num a, .num b] => some (.bool (b < a))
  | ge, [.num a, .num b] => some (.bool (b ≤ a))
  | abs, [.num x] => some (.num (ratAbs x))
  | floor, [.num x] => some (.num x.floor)
  | ceiling, [.num x] => some (.num x.ceil)
  | max, .num x :: r => (nums r).map fun xs => .num (xs.foldl ratMax x)
  | min, .num x :: r => (nums r).map fun xs => .num (xs.foldl ratMin x)
  | mod, [.num a, .num b] => if b = 0 then none else some (.num (a - b * (a / b).floor))
  | rem, [.num a, .num b] => if b = 0 then none else some (.num (a - b * ratTrunc (a / b)))
  | fn name, [.num x] => some (.num (I.fn name x))
  | _, _ => none

def constVal (I : Interp) : Meaning → Option Val
  | constant n => some (.num (I.constant n))
  | tt => some (.bool true)
  | ff => some (.bool false)
  | _ => none

def isConst : Meaning → Bool
  | constant _ | tt | ff => true
  | _ => false

end Meaning

/-- MathML 2 chapter 4 / appendix C, by hand: what each supported element means -/
def mmlTable : List (String × Meaning) := [
  ("plus", .add), ("times", .mul), ("and", .and), ("or", .or), ("xor", .xor), ("not", .not),
  ("eq", .eq), ("neq", .ne), ("lt", .lt), ("leq", .le), ("gt", .gt), ("geq", .ge),
  ("abs", .abs), ("floor", .floor), ("ceiling", .ceiling), ("max", .max), ("min", .min), ("rem", .rem),
  ("exp", .fn "exp"), ("ln", .fn "log"),
  ("sin", .fn "sin"), ("cos", .fn "cos"), ("tan", .fn "tan"), ("sec", .fn "sec"), ("csc", .fn "csc"), ("cot", .fn "cot"),
  ("sinh", .fn "sinh"), ("cosh", .fn "cosh"), ("tanh", .fn "tanh"), ("sech", .fn "sech"), ("csch", .fn "csch"),
  ("coth", .fn "coth"),
  ("arcsin", .fn "asin"), ("arccos", .fn "acos"), ("arctan", .fn "atan"), ("arcsec", .fn "asec"), ("arccsc", .fn "acsc"),
  ("arccot", .fn "acot"),
  ("arcsinh", .fn "asinh"), ("arccosh", .fn "acosh"), ("arctanh", .fn "atanh"), ("arcsech", .fn "asech"),
  ("arccsch", .fn "acsch"), ("arccoth", .fn "acoth"),
  ("pi", .constant "pi"), ("exponentiale", .constant "e"), ("infinity", .constant "inf"), ("notanumber", .constant "nan"),
  ("true", .tt), ("false", .ff)]

def mmlMeaning (tag : String) : Option Meaning := mmlTable.lookup tag

/-- the relations MathML 2 defines as n-ary (chained): `a R b R c` means `a R b ∧ b R c` -/
def mmlNaryRelations : List String := ["eq", "geq", "gt", "leq", "lt"]

/-- modelled SymPy: what each class / singleton of the operator table computes -/
def syTable : List (String × Meaning) := [
  ("Add", .add), ("Mul", .mul), ("And", .and), ("Or", .or), ("Xor", .xor), ("Not", .not),
  ("Eq", .eq), ("Ne", .ne), ("Lt", .lt), ("Le", .le), ("Gt", .gt), ("Ge", .ge),
  ("Abs", .abs), ("floor", .floor), ("ceiling", .ceiling), ("Max", .max), ("Min", .min), ("Mod", .mod),
  ("ln", .fn "log"),
  ("E", .constant "e"), ("pi", .constant "pi"), ("oo", .constant "inf"), ("nan", .constant "nan"),
  ("true", .tt), ("false", .ff)]

/-- every other class is the unary function of its own name (`sympy.acosh` is acosh …) -/
def syMeaning (c : String) : Meaning :=
  match syTable.lookup c with
  | some m => m
  | none => .fn c

def rootSem (I : Interp) (x n : Rat) : Option Val := if n = 0 then none else some (.num (I.pow x (1 / n)))
def logbSem (I : Interp) (x b : Rat) : Option Val :=
  if I.fn "log" b = 0 then none else some (.num (I.fn "log" x / I.fn "log" b))
def divSem (a b : Rat) : Option Val := if b = 0 then none else some (.num (a / b))

/-- heads that are Python-level operations of the wrapped callbacks, not table classes -/
def specialHeads : List String := ["Piecewise", "neg", "sub", "div", "pow", "root", "logb"]

/-- the value of `head(*args)` given the values of the arguments -/
def syApply (I : Interp) (h : String) (vs : List Val) : Option Val :=
  if h = "neg" then (match vs with | [.num a] => some (.num (-a)) | _ => none)
  else if h = "sub" then (match vs with | [.num a, .num b] => some (.num (a - b)) | _ => none)
  else if h = "div" then (match vs with | [.num a, .num b] => divSem a b | _ => none)
  else if h = "pow" then (match vs with | [.num a, .num b] => some (.num (I.pow a b)) | _ => none)
  else if h = "root" then (match vs with | [.num x, .num n] => rootSem I x n | _ => none)
  else if h = "logb" then (match vs with | [.num x, .num b] => logbSem I x b | _ => none)
  else if (h = "ln" ∨ h = "log") ∧ vs.length = 2 then            -- sympy.log(x, base)
    (match vs with | [.num x, .num b] => logbSem I x b | _ => none)
  else (syMeaning h).apply I vs

mutual
/-- value of a SymPy term -/
def evalSy (I : Interp) : Sy → Option Val
  | .num q => some (.num q)
  | .int n => some (.num n)
  | .sym n => some (I.var n)
  | .const c => (syMeaning c).constVal I
  | .app h args =>
    if h = "Piecewise" then evalSyPieces I args
    else match evalSyArgs I args with
      | some vs => syApply I h vs
      | none => none
  | _ => none
/-- values of an argument list -/
def evalSyArgs (I : Interp) : Sy → Option (List Val)
  | .nil => some []
  | .cons a r =>
    match evalSy I a, evalSyArgs I r with
    | some v, some vs => some (v :: vs)
    | _, _ => none
  | _ => none
/-- `Piecewise((e₁,c₁), …)`: the first pair whose condition is true -/
def evalSyPieces (I : Interp) : Sy → Option Val
  | .cons (.tuple e c) r =>
    match evalSy I c with
    | some (.bool true) => evalSy I e
    | some (.bool false) => evalSyPieces I r
    | _ => none
  | _ => none
end

/-! ## MathML 2 reference semantics -/

/-- the numerals MathML/CellML allow: decimal text without PEP-515 underscores, no inf/nan, inside binary64 range -/
def specNumeral (s : String) : Option Rat :=
  if s.toList.contains '_' then none
  else match pyFloat s.toList with
    | some (.fin q) => some q
    | _ => none

def specNumeralExp (m k : String) : Option Rat :=
  if m.toList.contains '_' || k.toList.contains '_' then none
  else match pyInt k.toList with
    | none => none
    | some e =>
      match pyFloatExp m.toList e with
      | some (.fin q) => some q
      | _ => none

/-- `<cn>` : plain real (no child element) or `type="e-notation"` mantissa `<sep/>` exponent -/
def cnMeaning (ty : Option String) (text : Option String) (kids : List (Bool × Option String)) : Option Rat :=
  match ty, text, kids with
  | none, some s, [] => specNumeral s
  | some t, some m, [(true, some k)] => if t = "e-notation" then specNumeralExp m k else none
  | _, _, _ => none

inductive Role where
  | plain | degree | logbase
deriving DecidableEq, Repr

def plainVals : List (Role × Val) → Option (List Val)
  | [] => some []
  | (.plain, v) :: r => (plainVals r).map (v :: ·)
  | _ => none

/-- `a R b R c …` = conjunction of the adjacent pairs; at least two operands -/
def chain (I : Interp) (m : Meaning) : List Val → Option Val
  | a :: b :: rest =>
    match m.apply I [a, b] with
    | some (.bool p) =>
      match rest with
      | [] => some (.bool p)
      | _ :: _ =>
        match chain I m (b :: rest) with
        | some (.bool q) => some (.bool (p && q))
        | _ => none
    | _ => none
  | _ => none

/-- the value of `<apply><op/> items…</apply>` given the values (and roles) of the children after the operator -/
def applyOp (I : Interp) (op : String) (items : List (Role × Val)) : Option Val :=
  if op = "minus" then
    (match items with
     | [(.plain, .num a)] => some (.num (-a))
     | [(.plain, .num a), (.plain, .num b)] => some (.num (a - b))
     | _ => none)
  else if op = "divide" then
    (match items with | [(.plain, .num a), (.plain, .num b)] => divSem a b | _ => none)
  else if op = "power" then
    (match items with | [(.plain, .num a), (.plain, .num b)] => some (.num (I.pow a b)) | _ => none)
  else if op = "root" then
    (match items with
     | [(.plain, .num x)] => rootSem I x 2
     | [(.degree, .num n), (.plain, .num x)] => rootSem I x n
     | _ => none)
  else if op = "log" then
    (match items with
     | [(.plain, .num x)] => logbSem I x 10
     | [(.logbase, .num b), (.plain, .num x)] => logbSem I x b
     | _ => none)
  else
    match plainVals items, mmlMeaning op with
    | some vs, some m => if op ∈ mmlNaryRelations then chain I m vs else m.apply I vs
    | _, _ => none

/-- `<degree>` / `<logbase>` keep their role; everything else is a plain operand -/
def Mml.qualifierRole : Mml → Option Role
  | .el tag _ => if tag = "degree" then some .degree else if tag = "logbase" then some .logbase else none
  | _ => none

/-- the item a child `k` contributes: `self` = value of `k` as an expression, `inner` = value of its only child -/
def itemOf (k : Mml) (self inner : Option Val) : Option (Role × Val) :=
  match k.qualifierRole with
  | none => self.map fun v => (Role.plain, v)
  | some ro => inner.map fun v => (ro, v)

def consItem (it : Option (Role × Val)) (its : Option (List (Role × Val))) : Option (List (Role × Val)) :=
  match it, its with
  | some a, some r => some (a :: r)
  | _, _ => none

/-- one `<piece>`: `cond` and `value` are the values of its two children, `rest` the value of the remaining pieces -/
def pieceSem (cond value rest : Option Val) : Option Val :=
  match cond with
  | some (.bool true) => value
  | some (.bool false) => rest
  | _ => none

/-- value of a constant element (`<pi/>`, `<true/>` …) -/
def constSem (I : Interp) (tag : String) : Option Val :=
  match mmlMeaning tag with
  | some m => m.constVal I
  | none => none

def applySem (I : Interp) (op : String) (items : Option (List (Role × Val))) : Option Val :=
  match items with
  | some its => applyOp I op its
  | none => none

mutual
/-- MathML 2 value of an element -/
def evalMml (I : Interp) : Mml → Option Val
  | .ci n => some (I.var n)
  | .cn ty text kids => (cnMeaning ty text kids).map .num
  | .el tag (.cons (.el op opk) rest) =>
    if tag = "apply" then applySem I op (evalItems I rest)
    else if tag = "piecewise" then evalPieces I (.cons (.el op opk) rest)
    else constSem I tag
  | .el tag kids =>
    if tag = "apply" then none
    else if tag = "piecewise" then evalPieces I kids
    else constSem I tag
  | _ => none
/-- values of the children after the operator; `<degree>`/`<logbase>` wrap exactly one child and keep their role -/
def evalItems (I : Interp) : Mml → Option (List (Role × Val))
  | .nil => some []
  | .cons (.el tag (.cons d .nil)) rest =>
    consItem (itemOf (.el tag (.cons d .nil)) (evalMml I (.el tag (.cons d .nil))) (evalMml I d)) (evalItems I rest)
  | .cons k rest => consItem (itemOf k (evalMml I k) none) (evalItems I rest)
  | _ => none
/-- `<piece>`s in order, first true condition wins; `<otherwise>` only as the last child -/
def evalPieces (I : Interp) : Mml → Option Val
  | .cons (.el tag (.cons e (.cons c .nil))) rest =>
    if tag = "piece" then pieceSem (evalMml I c) (evalMml I e) (evalPieces I rest) else none
  | .cons (.el tag (.cons e .nil)) .nil =>
    if tag = "otherwise" then evalMml I e else none
  | _ => none
end

end C02
