/-! Property theorems for C19 (not built yet). -/
