/-! Property theorems for C17 (not built yet). -/
