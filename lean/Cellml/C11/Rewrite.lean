import Cellml.C11.Printer

/-! C11 — `doprint`'s first step: the secondary trigonometric functions are rewritten with the generated table
    `Printer._extra_trig` (`("sec","recip","cos")` : sec(W) ↦ 1/cos(W); `("asec","ofRecip","acos")` : asec(W) ↦ acos(1/W)).
    SymPy rebuilds (and so re-evaluates) every ancestor of a rewritten node; the model performs the replacement only,
    with SymPy's evaluation of `1/W` for the simple shapes of `W`. -/
namespace C11

def extraTrig (n : String) : Option (String × String) :=
  go Cellml.Gen.printerExtraTrig
where go : List (String × String × String) → Option (String × String)
  | [] => none
  | (a, k, g) :: r => if a == n then some (k, g) else go r

/-- SymPy's evaluated `1/W` -/
def recipE : E → Option E
  | .pow b (.int (-1)) => if comm b then some b else none
  | .sym n c => some (.pow (.sym n c) (.int (-1)))
  | .fn f a => some (.pow (.fn f a) (.int (-1)))
  | .add a => some (.pow (.add a) (.int (-1)))
  | _ => none

def rewriteFn (name : String) (args : E) : Option E :=
  match extraTrig name, args with
  | some (k, g), .cons a .nil =>
      if k == "recip" then some (.pow (.fn g (.cons a .nil)) (.int (-1)))
      else if k == "ofRecip" then (recipE a).map (fun r => .fn g (.cons r .nil))
      else none
  | some _, _ => none
  | none, _ => some (.fn name args)

def rewriteTrig : E → Option E
  | .add a => (rewriteTrig a).map .add
  | .mul a => (rewriteTrig a).map .mul
  | .and a => (rewriteTrig a).map .and
  | .or a => (rewriteTrig a).map .or
  | .pw a => (rewriteTrig a).map .pw
  | .pow b x => do let b' ← rewriteTrig b; let x' ← rewriteTrig x; pure (.pow b' x')
  | .rel r a b => do let a' ← rewriteTrig a; let b' ← rewriteTrig b; pure (.rel r a' b')
  | .pair a b => do let a' ← rewriteTrig a; let b' ← rewriteTrig b; pure (.pair a' b')
  | .cons a b => do let a' ← rewriteTrig a; let b' ← rewriteTrig b; pure (.cons a' b')
  | .fn name args => do let args' ← rewriteTrig args; rewriteFn name args'
  | e => some e

end C11
