import Cellml.Units.Define

/-! `UnitStore.convert`, `get_conversion_factor`, `is_equivalent` (units.py 240-297) over the mini-pint. -/
namespace Units

/-- `get_conversion_factor`: `none` result stands for the int `1` the code returns when the factor is within 1e-9 of one
    (in the exact model: when it *is* one). -/
def conversionFactor (reg : Registry) (a b : Container) : Except UErr (Option Scale) :=
  match factor reg a b with
  | .ok f => .ok (if f = [] then none else some f)
  | .error e => .error e

/-- `convert(q·a, b)`: magnitude multiplier and the unit of the result. The `dimensionless` special case keeps the
    magnitude and returns the requested unit (behaviour after the repair of the defect recorded in known_findings). -/
def convert (reg : Registry) (a b : Container) : Except UErr (Scale × Container) :=
  match factor reg a b with
  | .ok f => .ok (f, b)
  | .error e => .error e

end Units
