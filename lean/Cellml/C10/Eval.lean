import Cellml.C10.Den
import Cellml.C08.Lemmas

/-! # C10: `getValue` computes what the definitions denote — the generic argument

    For a model whose definitions can be ranked (`Ranked`): `expand`, `evalE`, `evalDeps` and `getValueAux` either
    return the denoted value, or fail with an error that is not `fuel` and then the item denotes nothing. By induction on
    fuel; the memo is carried as an invariant (`MemoOK`: every entry is the denoted value). Core Lean only. -/

namespace Model

/-- no derivative and nothing opaque left -/
def Expr.plain : Expr → Bool
  | .num _ => true
  | .var _ => true
  | .deriv _ _ => false
  | .bin _ a b => a.plain && b.plain
  | .pow a _ => a.plain
  | .opq _ => false

/-- The definitions are ranked: every reference of a right-hand side ranks below the left-hand side (so there is no
    cycle); `Occ` holds of everything that occurs on a right-hand side; `m` is a second measure that decreases with
    `rank` on occurring nodes of the same kind (it is what the fuel is compared with). -/
structure Ranked (M : RModel) (rank : Node → Nat) (Occ : Node → Prop) (m : Node → Nat) : Prop where
  varDec : ∀ v r, varRhs M v = some r → ∀ n ∈ r.nodes, rank n < rank (.var v) ∧ Occ n
  odeDec : ∀ s t r, odeRhs M s t = some r → ∀ n ∈ r.nodes, rank n < rank (.deriv s t) ∧ Occ n
  mVar : ∀ a b, Occ (.var a) → rank (.var a) < rank (.var b) → m (.var a) < m (.var b)
  mDer : ∀ s t s' t', Occ (.deriv s t) → rank (.deriv s t) < rank (.deriv s' t') → m (.deriv s t) < m (.deriv s' t')

section
variable {M : RModel} {rank : Node → Nat} {Occ : Node → Prop} {m : Node → Nat}

/-- where a variable of the expanded expression comes from -/
def VarBound (rank : Node → Nat) (Occ : Node → Prop) (e : Expr) (d : Nat) : Prop :=
  .var d ∈ e.nodes ∨ ∃ s t, .deriv s t ∈ e.nodes ∧ rank (.var d) < rank (.deriv s t) ∧ Occ (.var d)

theorem VarBound.mono {e e' : Expr} {d : Nat} (h : VarBound rank Occ e d) (hsub : ∀ n ∈ e.nodes, n ∈ e'.nodes) :
    VarBound rank Occ e' d := by
  rcases h with h | ⟨s, t, h1, h2⟩
  · exact .inl (hsub _ h)
  · exact .inr ⟨s, t, hsub _ h1, h2⟩

/-- what a correct expansion of `e` looks like -/
def GoodX (M : RModel) (rank : Node → Nat) (Occ : Node → Prop) (e : Expr) : Except VErr Expr → Prop
  | .ok e' => e'.plain = true ∧ (∀ q, Den M (.e e) q ↔ Den M (.e e') q) ∧ ∀ d ∈ e'.vars, VarBound rank Occ e d
  | .error err => err ≠ .fuel ∧ ∀ q, ¬ Den M (.e e) q

theorem vars_bin (op : BinOp) (a b : Expr) : (Expr.bin op a b).vars = a.vars ++ b.vars := by
  simp [Expr.vars, Expr.nodes, List.flatMap_append]

theorem vars_pow (a : Expr) (n : Int) : (Expr.pow a n).vars = a.vars := rfl

theorem bindD_good (g : Nat → Nat → Except VErr Expr) (e : Expr)
    (hg : ∀ s t, .deriv s t ∈ e.nodes → GoodX M rank Occ (.deriv s t) (g s t)) :
    GoodX M rank Occ e (e.bindD g) := by
  induction e with
  | num q => exact ⟨rfl, fun _ => Iff.rfl, fun d hd => by simp [Expr.vars, Expr.nodes] at hd⟩
  | var v =>
    refine ⟨rfl, fun _ => Iff.rfl, fun d hd => ?_⟩
    simp [Expr.vars, Expr.nodes, Node.atoms] at hd
    subst hd; exact .inl (by simp [Expr.nodes])
  | deriv s t => exact hg s t (by simp [Expr.nodes])
  | opq l => exact ⟨by decide, not_den_opq l⟩
  | bin op a b iha ihb =>
    have iha := iha (fun s t h => hg s t (by simp [Expr.nodes]; exact .inl h))
    have ihb := ihb (fun s t h => hg s t (by simp [Expr.nodes]; exact .inr h))
    simp only [Expr.bindD]
    rcases ha : a.bindD g with ea | a'
    · rw [ha] at iha
      exact ⟨iha.1, fun q h => by
        obtain ⟨p, _, hp, _, _⟩ := den_bin_iff.mp h
        exact iha.2 p hp⟩
    · rw [ha] at iha
      rcases hb : b.bindD g with eb | b'
      · rw [hb] at ihb
        exact ⟨ihb.1, fun q h => by
          obtain ⟨_, p, _, hp, _⟩ := den_bin_iff.mp h
          exact ihb.2 p hp⟩
      · rw [hb] at ihb
        obtain ⟨pa, da, va⟩ := iha
        obtain ⟨pb, db, vb⟩ := ihb
        refine ⟨by simp [Expr.plain, pa, pb], fun q => ?_, fun d hd => ?_⟩
        · rw [den_bin_iff, den_bin_iff]
          constructor
          · rintro ⟨p, q', h1, h2, h3⟩; exact ⟨p, q', (da p).mp h1, (db q').mp h2, h3⟩
          · rintro ⟨p, q', h1, h2, h3⟩; exact ⟨p, q', (da p).mpr h1, (db q').mpr h2, h3⟩
        · rw [vars_bin, List.mem_append] at hd
          rcases hd with hd | hd
          · exact (va d hd).mono (fun n hn => by simp [Expr.nodes]; exact .inl hn)
          · exact (vb d hd).mono (fun n hn => by simp [Expr.nodes]; exact .inr hn)
  | pow a n iha =>
    have iha := iha (fun s t h => hg s t (by simpa [Expr.nodes] using h))
    simp only [Expr.bindD]
    rcases ha : a.bindD g with ea | a'
    · rw [ha] at iha
      exact ⟨iha.1, fun q h => by
        obtain ⟨p, hp, _⟩ := den_pow_iff.mp h
        exact iha.2 p hp⟩
    · rw [ha] at iha
      obtain ⟨pa, da, va⟩ := iha
      refine ⟨by simpa [Expr.plain] using pa, fun q => ?_, fun d hd => ?_⟩
      · rw [den_pow_iff, den_pow_iff]
        constructor
        · rintro ⟨p, h1, h2⟩; exact ⟨p, (da p).mp h1, h2⟩
        · rintro ⟨p, h1, h2⟩; exact ⟨p, (da p).mpr h1, h2⟩
      · rw [vars_pow] at hd
        exact (va d hd).mono (fun n hn => by simpa [Expr.nodes] using hn)

/-- `expand` with fuel above the measure of every derivative it meets is a correct expansion -/
theorem expand_good (R : Ranked M rank Occ m) : ∀ (F : Nat) (e : Expr),
    (∀ s t, .deriv s t ∈ e.nodes → m (.deriv s t) < F ∧ Occ (.deriv s t)) → GoodX M rank Occ e (expand M F e)
  | 0, e, h => by
    simp only [expand]
    exact bindD_good _ e (fun s t hst => absurd (h s t hst).1 (Nat.not_lt_zero _))
  | F + 1, e, h => by
    simp only [expand]
    refine bindD_good _ e (fun s t hst => ?_)
    rcases ho : odeRhs M s t with _ | r
    · exact And.intro (by decide) (not_den_deriv ho)
    · dsimp only
      have ih := expand_good R F r (fun s' t' h' => by
        have hd := R.odeDec s t r ho _ h'
        have := R.mDer s' t' s t hd.2 hd.1
        have := (h s t hst).1
        exact ⟨by omega, hd.2⟩)
      rcases hx : expand M F r with err | r'
      · rw [hx] at ih
        exact ⟨ih.1, fun q hq => ih.2 q ((den_deriv_iff ho).mp hq)⟩
      · rw [hx] at ih
        obtain ⟨pr, dr, vr⟩ := ih
        refine ⟨pr, fun q => (den_deriv_iff ho).trans (dr q), fun d hd => ?_⟩
        rcases vr d hd with h1 | ⟨s', t', h1, h2, h3⟩
        · have := R.odeDec s t r ho _ h1
          exact .inr ⟨s, t, by simp [Expr.nodes], this.1, this.2⟩
        · have := R.odeDec s t r ho _ h1
          exact .inr ⟨s, t, by simp [Expr.nodes], by omega, h3⟩

end
end Model
