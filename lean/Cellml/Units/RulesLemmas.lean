import Cellml.Units.Rules
import Cellml.Units.Lemmas
import Cellml.Props.C07

/-! Lemmas about the rule graph search and about conversion along a rule path (used by `Cellml.Props.C19`). -/

namespace Units
open PMap Cellml.Props.C07

/-! ### dimensions are canonical, additive -/

/-- `dimsOf` is a canonical form: semantically equal dimensions are equal -/
theorem dimsOf_eq_of_equiv {reg : Registry} {a b : Container} (h : dimsOf reg a ≃ dimsOf reg b) :
    dimsOf reg a = dimsOf reg b := by
  have := norm_eq_of_equiv h
  simpa only [dimsOf, norm_idem] using this

theorem dimsOf_add (reg : Registry) (a b : Container) :
    dimsOf reg (add a b) ≃ add (dimsOf reg a) (dimsOf reg b) := by
  refine (dimsOf_equiv reg _).trans ?_
  refine (dimsOfRoot_congr reg (toRoot_add reg a b).2).trans ?_
  refine (dimsOfRoot_add reg _ _).trans ?_
  exact add_congr (dimsOf_equiv reg a).symm (dimsOf_equiv reg b).symm

theorem dimsOf_congr (reg : Registry) {a b : Container} (h : a ≃ b) : dimsOf reg a = dimsOf reg b := by
  apply dimsOf_eq_of_equiv
  refine (dimsOf_equiv reg a).trans ?_
  refine (dimsOfRoot_congr reg (toRoot_congr reg h).2).trans ?_
  exact (dimsOf_equiv reg b).symm

theorem allKnown_add_eq (reg : Registry) (a b : Container) :
    allKnown reg (add a b) = (allKnown reg a && allKnown reg b) := by
  simp [allKnown, add, List.all_append]

theorem allKnown_nil (reg : Registry) : allKnown reg [] = true := rfl

/-! ### the graph of keys -/

/-- `d` can be reached from `s` along enabled transformations -/
inductive Reach (rules : List Rule) : Dims → Dims → Prop where
  | refl (s : Dims) : Reach rules s s
  | step (r : Rule) (d : Dims) : r ∈ rules → Reach rules r.dst d → Reach rules r.src d

theorem reach_start {rules : List Rule} {s d : Dims} (h : Reach rules s d) : s = d ∨ ∃ r ∈ rules, r.src = s := by
  cases h with
  | refl => left; rfl
  | step r d hr _ => right; exact ⟨r, hr, rfl⟩

theorem mem_walks_zero {rules : List Rule} {s d : Dims} {p : List Dims} :
    p ∈ walks rules 0 s d ↔ s = d ∧ p = [] := by
  unfold walks
  by_cases h : s = d <;> simp [h]

theorem mem_walks_succ {rules : List Rule} {n : Nat} {s d : Dims} {p : List Dims} :
    p ∈ walks rules (n + 1) s d ↔ ∃ r ∈ rules, r.src = s ∧ ∃ q ∈ walks rules n r.dst d, p = r.dst :: q := by
  simp only [walks, List.mem_flatMap, List.mem_filter, List.mem_map, decide_eq_true_eq]
  constructor
  · rintro ⟨r, ⟨hr, hs⟩, q, hq, rfl⟩; exact ⟨r, hr, hs, q, hq, rfl⟩
  · rintro ⟨r, hr, hs, q, hq, rfl⟩; exact ⟨r, ⟨hr, hs⟩, q, hq, rfl⟩

theorem reach_of_mem_walks {rules : List Rule} : ∀ {n : Nat} {s d : Dims} {p : List Dims},
    p ∈ walks rules n s d → Reach rules s d := by
  intro n
  induction n with
  | zero => intro s d p h; obtain ⟨rfl, _⟩ := mem_walks_zero.mp h; exact Reach.refl _
  | succ n ih =>
      intro s d p h
      obtain ⟨r, hr, rfl, q, hq, _⟩ := mem_walks_succ.mp h
      exact Reach.step r d hr (ih hq)

theorem length_of_mem_walks {rules : List Rule} : ∀ {n : Nat} {s d : Dims} {p : List Dims},
    p ∈ walks rules n s d → p.length = n := by
  intro n
  induction n with
  | zero => intro s d p h; obtain ⟨_, rfl⟩ := mem_walks_zero.mp h; rfl
  | succ n ih =>
      intro s d p h
      obtain ⟨r, _, _, q, hq, rfl⟩ := mem_walks_succ.mp h
      simp [ih hq]

theorem search_succ (rules : List Rule) (s d : Dims) (fuel n : Nat) :
    search rules s d (fuel + 1) n =
      match walks rules n s d with
      | p :: _ => some p
      | [] => search rules s d fuel (n + 1) := rfl

theorem mem_walks_of_search {rules : List Rule} {s d : Dims} : ∀ {fuel n : Nat} {p : List Dims},
    search rules s d fuel n = some p → ∃ k, p ∈ walks rules k s d := by
  intro fuel
  induction fuel with
  | zero => intro n p h; simp [search] at h
  | succ fuel ih =>
      intro n p h
      rw [search_succ] at h
      split at h
      · rename_i q t hw
        simp only [Option.some.injEq] at h
        subst h
        exact ⟨n, by rw [hw]; simp⟩
      · exact ih h

/-- a path that is found is a path of the graph -/
theorem reach_of_findPath {rules : List Rule} {s d : Dims} {p : List Dims} (h : findPath rules s d = some p) :
    Reach rules s d := by
  obtain ⟨k, hk⟩ := mem_walks_of_search h
  exact reach_of_mem_walks hk

theorem findPath_none_of_not_reach {rules : List Rule} {s d : Dims} (h : ¬ Reach rules s d) :
    findPath rules s d = none := by
  cases hp : findPath rules s d with
  | none => rfl
  | some p => exact absurd (reach_of_findPath hp) h

/-- a list all of whose elements are `x`, and which is not empty, starts with `x` -/
theorem head_of_const {α : Type} {l : List α} {x : α} (hall : ∀ y ∈ l, y = x) (hne : l ≠ []) :
    ∃ t, l = x :: t := by
  cases l with
  | nil => exact absurd rfl hne
  | cons y t => exact ⟨t, by rw [hall y (by simp)]⟩

theorem findPath_self (rules : List Rule) (s : Dims) : findPath rules s s = some [] := by
  simp [findPath, search_succ, walks]

theorem lookupRule_some {rules : List Rule} {s d : Dims} {r : Rule} (h : lookupRule rules s d = some r) :
    r ∈ rules ∧ r.src = s ∧ r.dst = d := by
  unfold lookupRule at h
  have h1 := List.mem_of_find?_eq_some h
  have h2 := List.find?_some h
  simp only [Bool.and_eq_true, decide_eq_true_eq] at h2
  exact ⟨h1, h2.1, h2.2⟩

theorem lookupRule_none {rules : List Rule} {s d : Dims} (h : lookupRule rules s d = none) :
    ∀ r ∈ rules, ¬ (r.src = s ∧ r.dst = d) := by
  unfold lookupRule at h
  intro r hr hc
  have := List.find?_eq_none.mp h r hr
  simp [hc.1, hc.2] at this

theorem length_pos_of_mem {α : Type} {l : List α} {a : α} (h : a ∈ l) : 1 ≤ l.length := by
  cases l with
  | nil => cases h
  | cons x t => simp

theorem two_le_length_of_mem_ne {α : Type} {l : List α} {a b : α} (ha : a ∈ l) (hb : b ∈ l) (hne : a ≠ b) :
    2 ≤ l.length := by
  match l, ha, hb with
  | [], ha, _ => cases ha
  | [x], ha, hb =>
      simp only [List.mem_singleton] at ha hb
      exact absurd (ha.trans hb.symm) hne
  | _ :: _ :: t, _, _ => simp

/-- the key (s, d) is enabled and s ≠ d: the shortest path is the single hop -/
theorem findPath_direct {rules : List Rule} {s d : Dims} {r : Rule} (hne : s ≠ d)
    (h : lookupRule rules s d = some r) : findPath rules s d = some [d] := by
  obtain ⟨hr, hs, hd⟩ := lookupRule_some h
  have hlen := length_pos_of_mem hr
  obtain ⟨m, hm⟩ : ∃ m, rules.length = m + 1 := ⟨rules.length - 1, by omega⟩
  have h0 : walks rules 0 s d = [] := by simp [walks, hne]
  have hall : ∀ p ∈ walks rules 1 s d, p = [d] := by
    intro p hp
    obtain ⟨r', _, _, q, hq, rfl⟩ := mem_walks_succ.mp hp
    obtain ⟨hd', rfl⟩ := mem_walks_zero.mp hq
    rw [hd']
  have hnonempty : walks rules 1 s d ≠ [] := by
    intro hc
    have : [d] ∈ walks rules 1 s d :=
      mem_walks_succ.mpr ⟨r, hr, hs, [], mem_walks_zero.mpr ⟨hd, rfl⟩, by rw [hd]⟩
    rw [hc] at this; cases this
  obtain ⟨t, ht⟩ := head_of_const hall hnonempty
  simp only [findPath, hm, search_succ, h0, ht]

/-- no direct key, one intermediate dimension `m` (the only one from which `d` is one hop away):
    the shortest path is `s → m → d` -/
theorem findPath_chain {rules : List Rule} {s m d : Dims} {r₁ r₂ : Rule} (hne : s ≠ d)
    (hdirect : lookupRule rules s d = none)
    (h₁ : lookupRule rules s m = some r₁) (h₂ : lookupRule rules m d = some r₂)
    (huniq : ∀ r ∈ rules, r.src = s → (∃ r' ∈ rules, r'.src = r.dst ∧ r'.dst = d) → r.dst = m) :
    findPath rules s d = some [m, d] := by
  obtain ⟨hr₁, hs₁, hd₁⟩ := lookupRule_some h₁
  obtain ⟨hr₂, hs₂, hd₂⟩ := lookupRule_some h₂
  have hne12 : r₁ ≠ r₂ := by
    intro heq
    -- then s = m and m = d
    apply hne
    rw [← hs₁, heq, hs₂, ← hd₁, heq, hd₂]
  have hlen := two_le_length_of_mem_ne hr₁ hr₂ hne12
  obtain ⟨k, hk⟩ : ∃ k, rules.length = k + 2 := ⟨rules.length - 2, by omega⟩
  have h0 : walks rules 0 s d = [] := by simp [walks, hne]
  have h1 : walks rules 1 s d = [] := by
    cases hw : walks rules 1 s d with
    | nil => rfl
    | cons p t =>
        have hp : p ∈ walks rules 1 s d := by rw [hw]; simp
        obtain ⟨r', hr', hs', q, hq, _⟩ := mem_walks_succ.mp hp
        obtain ⟨hd', _⟩ := mem_walks_zero.mp hq
        exact absurd ⟨hs', hd'⟩ (lookupRule_none hdirect r' hr')
  have hall : ∀ p ∈ walks rules 2 s d, p = [m, d] := by
    intro p hp
    obtain ⟨ra, hra, hsa, q, hq, rfl⟩ := mem_walks_succ.mp hp
    obtain ⟨rb, hrb, hsb, q', hq', rfl⟩ := mem_walks_succ.mp hq
    obtain ⟨hdb, rfl⟩ := mem_walks_zero.mp hq'
    have := huniq ra hra hsa ⟨rb, hrb, hsb, hdb⟩
    rw [this, hdb]
  have hnonempty : walks rules 2 s d ≠ [] := by
    intro hc
    have : [m, d] ∈ walks rules 2 s d := by
      refine mem_walks_succ.mpr ⟨r₁, hr₁, hs₁, [d], ?_, by rw [hd₁]⟩
      refine mem_walks_succ.mpr ⟨r₂, hr₂, by rw [hs₂, hd₁], [], mem_walks_zero.mpr ⟨hd₂, rfl⟩, by rw [hd₂]⟩
    rw [hc] at this; cases this
  obtain ⟨t, ht⟩ := head_of_const hall hnonempty
  simp only [findPath, hk, search_succ, h0, h1, ht]

/-! ### conversion along a path -/

theorem convertWithRules_known {reg : Registry} {rules : List Rule} {a b : Container}
    (ha : allKnown reg a = true) (hb : allKnown reg b = true) :
    convertWithRules reg rules a b =
      match findPath rules (dimsOf reg a) (dimsOf reg b) with
      | none =>
          match factor reg a b with
          | .ok f => .ok (f, [])
          | .error e => .error e
      | some path =>
          match factor reg (add a (pathUnit (rulesAlong rules (dimsOf reg a) path))) b with
          | .ok f => .ok (norm (add f (pathScale (rulesAlong rules (dimsOf reg a) path))),
                          norm (pathSyms (rulesAlong rules (dimsOf reg a) path)))
          | .error e => .error e := by
  unfold convertWithRules
  simp only [ha, hb, Bool.and_self, Bool.not_true, Bool.false_eq_true, if_false]
  rfl

theorem convertWithRules_unknown {reg : Registry} {rules : List Rule} {a b : Container}
    (h : (allKnown reg a && allKnown reg b) = false) :
    convertWithRules reg rules a b = .error .undefinedUnit := by
  unfold convertWithRules
  simp [h]

theorem factor_unknown {reg : Registry} {a b : Container}
    (h : (allKnown reg a && allKnown reg b) = false) : factor reg a b = .error .undefinedUnit := by
  unfold factor
  simp [h]

/-- when the dimensions agree no rule is consulted -/
theorem convertWithRules_same_dims (reg : Registry) (rules : List Rule) (a b : Container)
    (hd : dimsOf reg a = dimsOf reg b) :
    convertWithRules reg rules a b =
      match factor reg a b with
      | .ok f => .ok (f, [])
      | .error e => .error e := by
  cases hk : (allKnown reg a && allKnown reg b) with
  | false => rw [convertWithRules_unknown hk, factor_unknown hk]
  | true =>
      simp only [Bool.and_eq_true] at hk
      rw [convertWithRules_known hk.1 hk.2, hd, findPath_self]
      simp only [rulesAlong, pathUnit, pathScale, pathSyms]
      have hadd : add a ([] : Container) = a := by simp [add]
      rw [hadd]
      cases hf : factor reg a b with
      | error e => rfl
      | ok f =>
          obtain ⟨_, _, _, rfl⟩ := (factor_ok_iff reg a b f).mp hf
          have h1 : add (norm (sub (toRoot reg a).1 (toRoot reg b).1)) ([] : Scale) =
              norm (sub (toRoot reg a).1 (toRoot reg b).1) := by simp [add]
          simp only [h1, norm_idem]
          rfl

/-- the factor along a path, in scale terms -/
theorem factor_with_kappa {reg : Registry} {a b k : Container} {f : Scale}
    (h : factor reg (add a k) b = .ok f) :
    f ≃ add (sub (toRoot reg a).1 (toRoot reg b).1) (toRoot reg k).1 := by
  have e := factor_ratio reg _ _ f h
  have m := (toRoot_add reg a k).1
  intro p
  have := e p; have := m p
  simp only [get_add, get_sub] at *
  grind

/-! ### `UnitStore.convert`: the special case for the unit `dimensionless` -/

theorem toRoot_nil_container (reg : Registry) : (toRoot reg ([] : Container)).2 ≃ ([] : Container) := by
  intro p
  have := (toRoot_smul reg 0 ([] : Container)).2 p
  simp only [get_smul, get_nil] at this ⊢
  have h0 : smul (0 : Rat) ([] : Container) = [] := rfl
  rw [h0] at this
  grind

theorem dimsOf_nil (reg : Registry) : dimsOf reg ([] : Container) = [] := by
  have h1 : dimsOfRoot reg ([] : Container) ≃ ([] : Dims) := by
    intro p
    have := dimsOfRoot_smul reg 0 ([] : Container) p
    have h0 : smul (0 : Rat) ([] : Container) = [] := rfl
    rw [h0] at this
    simp only [get_smul, get_nil] at this ⊢
    grind
  have h2 : dimsOf reg ([] : Container) ≃ ([] : Dims) :=
    (dimsOf_equiv reg []).trans ((dimsOfRoot_congr reg (toRoot_nil_container reg)).trans h1)
  have h3 := norm_eq_of_equiv h2
  have h4 : norm ([] : Dims) = [] := rfl
  rw [h4] at h3
  simpa only [dimsOf, norm_idem] using h3

/-- The inverse route that `UnitStore.convert` takes for `dimensionless → (unit without dimension)` gives exactly what
    the direct route gives: the special case cannot be observed. -/
theorem convertQ_eq (reg : Registry) (rules : List Rule) (a b : Container) :
    convertQ reg rules a b = convertWithRules reg rules a b := by
  unfold convertQ
  split
  · rename_i hc
    have ha0 : a ≃ ([] : Container) := by
      intro p; rw [← get_norm a p, hc.1]
    have hda : dimsOf reg a = [] := by rw [dimsOf_congr reg ha0, dimsOf_nil]
    have hd : dimsOf reg a = dimsOf reg b := by rw [hda, hc.2]
    rw [convertWithRules_same_dims reg rules b a hd.symm, convertWithRules_same_dims reg rules a b hd]
    cases hk : (allKnown reg a && allKnown reg b) with
    | false =>
        have hk' : (allKnown reg b && allKnown reg a) = false := by rw [Bool.and_comm]; exact hk
        rw [factor_unknown hk, factor_unknown hk']
    | true =>
        simp only [Bool.and_eq_true] at hk
        have hab : factor reg a b = .ok (norm (sub (toRoot reg a).1 (toRoot reg b).1)) :=
          (factor_ok_iff reg a b _).mpr ⟨hk.1, hk.2, beq_iff_equiv.mpr (hd ▸ Equiv.refl _), rfl⟩
        have hba : factor reg b a = .ok (norm (sub (toRoot reg b).1 (toRoot reg a).1)) :=
          (factor_ok_iff reg b a _).mpr ⟨hk.2, hk.1, beq_iff_equiv.mpr (hd ▸ Equiv.refl _), rfl⟩
        rw [hab, hba]
        have e1 : norm (neg (norm (sub (toRoot reg b).1 (toRoot reg a).1))) =
            norm (sub (toRoot reg a).1 (toRoot reg b).1) := by
          apply norm_eq_of_equiv
          intro p; simp only [get_neg, get_norm, get_sub]; grind
        have e2 : norm (neg ([] : Syms)) = [] := rfl
        simp only [e1, e2]
  · rfl

/-! ### the bounded search is complete and returns a shortest path -/

/-- a path written as the list of rules used -/
inductive RChain (rules : List Rule) : Dims → List Rule → Dims → Prop where
  | nil (s : Dims) : RChain rules s [] s
  | cons (r : Rule) (rs : List Rule) (d : Dims) : r ∈ rules → RChain rules r.dst rs d → RChain rules r.src (r :: rs) d

theorem rchain_of_reach {rules : List Rule} {s d : Dims} (h : Reach rules s d) : ∃ rs, RChain rules s rs d := by
  induction h with
  | refl s => exact ⟨[], RChain.nil s⟩
  | step r d hr _ ih => obtain ⟨rs, hrs⟩ := ih; exact ⟨r :: rs, RChain.cons r rs d hr hrs⟩

theorem rchain_mem {rules : List Rule} {s d : Dims} {rs : List Rule} (h : RChain rules s rs d) :
    ∀ x ∈ rs, x ∈ rules := by
  induction h with
  | nil s => intro x hx; cases hx
  | cons r rs d hr _ ih =>
      intro x hx
      simp only [List.mem_cons] at hx
      rcases hx with rfl | hx
      · exact hr
      · exact ih x hx

/-- the part of a chain after an occurrence of `r` starts at `r.dst` -/
theorem rchain_suffix {rules : List Rule} {s d : Dims} {xs zs : List Rule} {r : Rule}
    (h : RChain rules s (xs ++ r :: zs) d) : RChain rules r.dst zs d := by
  induction xs generalizing s with
  | nil =>
      simp only [List.nil_append] at h
      cases h with
      | cons _ _ _ _ ht => exact ht
  | cons x xs ih =>
      simp only [List.cons_append] at h
      cases h with
      | cons _ _ _ _ ht => exact ih ht

/-- loops can be cut out: there is a chain that uses every rule at most once -/
theorem rchain_nodup {rules : List Rule} {s d : Dims} {rs : List Rule} (h : RChain rules s rs d) :
    ∃ rs', RChain rules s rs' d ∧ rs'.Nodup := by
  induction h with
  | nil s => exact ⟨[], RChain.nil s, List.nodup_nil⟩
  | cons r rs d hr _ ih =>
      obtain ⟨rs', hc, hn⟩ := ih
      by_cases hmem : r ∈ rs'
      · obtain ⟨xs, zs, rfl⟩ := List.append_of_mem hmem
        refine ⟨r :: zs, RChain.cons r zs d hr (rchain_suffix hc), ?_⟩
        exact (List.nodup_append.mp hn).2.1
      · exact ⟨r :: rs', RChain.cons r rs' d hr hc, List.nodup_cons.mpr ⟨hmem, hn⟩⟩

theorem nodup_length_le {l rules : List Rule} (hn : l.Nodup) (hsub : ∀ x ∈ l, x ∈ rules) :
    l.length ≤ rules.length := by
  induction l generalizing rules with
  | nil => simp
  | cons r t ih =>
      obtain ⟨hrt, hnt⟩ := List.nodup_cons.mp hn
      have hr : r ∈ rules := hsub r (by simp)
      have hsub' : ∀ x ∈ t, x ∈ rules.erase r := by
        intro x hx
        have hxr : x ≠ r := fun h => hrt (h ▸ hx)
        exact (List.mem_erase_of_ne hxr).mpr (hsub x (by simp [hx]))
      have := ih hnt hsub'
      have hlen := List.length_erase_of_mem hr
      have hpos := length_pos_of_mem hr
      simp only [List.length_cons]
      omega

theorem mem_walks_of_rchain {rules : List Rule} {s d : Dims} {rs : List Rule} (h : RChain rules s rs d) :
    rs.map (·.dst) ∈ walks rules rs.length s d := by
  induction h with
  | nil s => exact mem_walks_zero.mpr ⟨rfl, rfl⟩
  | cons r rs d hr _ ih =>
      simp only [List.length_cons, List.map_cons]
      exact mem_walks_succ.mpr ⟨r, hr, rfl, _, ih, rfl⟩

theorem search_finds {rules : List Rule} {s d : Dims} {n : Nat} (hn : walks rules n s d ≠ []) :
    ∀ (fuel k : Nat), k ≤ n → n < k + fuel → ∃ p, search rules s d fuel k = some p := by
  intro fuel
  induction fuel with
  | zero => intro k h1 h2; omega
  | succ fuel ih =>
      intro k h1 h2
      rw [search_succ]
      cases hw : walks rules k s d with
      | cons p t => exact ⟨p, rfl⟩
      | nil =>
          have hkn : k ≠ n := fun h => hn (h ▸ hw)
          exact ih (k + 1) (by omega) (by omega)

/-- completeness: whatever can be reached is found (a loop-free path has at most `rules.length` hops) -/
theorem findPath_complete {rules : List Rule} {s d : Dims} (h : Reach rules s d) :
    ∃ p, findPath rules s d = some p := by
  obtain ⟨rs, hc⟩ := rchain_of_reach h
  obtain ⟨rs', hc', hn⟩ := rchain_nodup hc
  have hlen := nodup_length_le hn (rchain_mem hc')
  have hw : walks rules rs'.length s d ≠ [] := by
    intro he
    have := mem_walks_of_rchain hc'
    rw [he] at this; cases this
  exact search_finds hw (rules.length + 1) 0 (Nat.zero_le _) (by omega)

theorem findPath_none_iff {rules : List Rule} {s d : Dims} : findPath rules s d = none ↔ ¬ Reach rules s d := by
  constructor
  · intro h hr
    obtain ⟨p, hp⟩ := findPath_complete hr
    rw [h] at hp; cases hp
  · exact findPath_none_of_not_reach

theorem search_minimal {rules : List Rule} {s d : Dims} : ∀ {fuel n : Nat} {p : List Dims},
    search rules s d fuel n = some p → n ≤ p.length ∧ ∀ k, n ≤ k → k < p.length → walks rules k s d = [] := by
  intro fuel
  induction fuel with
  | zero => intro n p h; simp [search] at h
  | succ fuel ih =>
      intro n p h
      rw [search_succ] at h
      split at h
      · rename_i q t hw
        simp only [Option.some.injEq] at h
        subst h
        have : q.length = n := length_of_mem_walks (by rw [hw]; simp)
        exact ⟨by omega, fun k h1 h2 => by omega⟩
      · rename_i hw
        obtain ⟨h1, h2⟩ := ih h
        refine ⟨by omega, fun k hk1 hk2 => ?_⟩
        by_cases hkn : k = n
        · rw [hkn]; exact hw
        · exact h2 k (by omega) hk2

/-- the path found is a shortest one: no walk with fewer hops exists -/
theorem findPath_shortest {rules : List Rule} {s d : Dims} {p : List Dims} (h : findPath rules s d = some p)
    (k : Nat) (q : List Dims) (hq : q ∈ walks rules k s d) : p.length ≤ k := by
  have := (search_minimal h).2 k (Nat.zero_le _)
  by_cases hk : k < p.length
  · rw [this hk] at hq; cases hq
  · omega

end Units
