import Cellml.C14.Pipeline

/-! # C14: lemmas about the rounding core, the binade location, the field assembly and the round trip.
    Core Lean only (`omega` with products generalised to atoms). -/

namespace C14

/-- distance on `Nat` -/
def dist (a b : Nat) : Nat := (a - b) + (b - a)

theorem dist_self (a : Nat) : dist a a = 0 := by simp [dist]

/-! ## `roundDivEven` -/

/-- within half a unit: `|n - r·d| · 2 ≤ d` (stated without subtraction) -/
theorem roundDivEven_near (n d : Nat) (hd : 0 < d) :
    2 * n ≤ 2 * (roundDivEven n d * d) + d ∧ 2 * (roundDivEven n d * d) ≤ 2 * n + d := by
  have h1 := Nat.div_add_mod n d
  have h2 := Nat.mod_lt n hd
  unfold roundDivEven
  simp only
  generalize n / d = q at *
  generalize n % d = r at *
  have hmul : q * d = d * q := Nat.mul_comm q d
  have hmul' : (q + 1) * d = d * q + d := by rw [Nat.add_mul, Nat.mul_comm q d]; omega
  split
  · rw [hmul]; omega
  · split
    · rw [hmul']; omega
    · split <;> first | (rw [hmul]; omega) | (rw [hmul']; omega)

/-- in a tie the result is even -/
theorem roundDivEven_tie_even (n d : Nat) (h : 2 * (n % d) = d) : roundDivEven n d % 2 = 0 := by
  unfold roundDivEven
  simp only
  have : ¬ (2 * (n % d) < d) := by omega
  have h' : ¬ (2 * (n % d) > d) := by omega
  simp only [this, h', if_false]
  split <;> omega

/-- an exact multiple is returned unchanged: rounding is the identity on representable values -/
theorem roundDivEven_exact (q d : Nat) (hd : 0 < d) : roundDivEven (q * d) d = q := by
  unfold roundDivEven
  simp [Nat.mul_div_cancel _ hd, Nat.mul_mod_left, hd]

/-- `n < k·d → round(n/d) ≤ k` -/
theorem roundDivEven_le (n d k : Nat) (hd : 0 < d) (h : n < k * d) : roundDivEven n d ≤ k := by
  have hn := (roundDivEven_near n d hd).2
  generalize roundDivEven n d = s at *
  apply Nat.le_of_lt_succ
  apply Nat.lt_of_mul_lt_mul_right (a := d)
  rw [Nat.succ_mul]
  omega

/-- `k·d ≤ n → k ≤ round(n/d)` -/
theorem roundDivEven_ge (n d k : Nat) (hd : 0 < d) (h : k * d ≤ n) : k ≤ roundDivEven n d := by
  have hn := (roundDivEven_near n d hd).1
  generalize roundDivEven n d = s at *
  apply Nat.le_of_lt_succ
  apply Nat.lt_of_mul_lt_mul_right (a := d)
  rw [Nat.succ_mul]
  omega

/-- no multiple of `d` is closer to `n` than `round(n/d)·d` -/
theorem roundDivEven_nearest (n d k : Nat) (hd : 0 < d) :
    dist n (roundDivEven n d * d) ≤ dist n (k * d) := by
  have ⟨h1, h2⟩ := roundDivEven_near n d hd
  generalize roundDivEven n d = s at *
  unfold dist
  rcases Nat.lt_trichotomy k s with hk | hk | hk
  · have e1 : (k + 1) * d ≤ s * d := Nat.mul_le_mul_right d hk
    rw [Nat.add_mul, Nat.one_mul] at e1
    omega
  · subst hk; omega
  · have e1 : (s + 1) * d ≤ k * d := Nat.mul_le_mul_right d hk
    rw [Nat.add_mul, Nat.one_mul] at e1
    omega

/-! ## locating the binade -/

theorem two_pow_pos (k : Nat) : 0 < 2 ^ k := Nat.pow_pos (by decide)

/-- the spacing chosen is not too fine: `N / (den·2^j) < 2^53` -/
theorem spacing_hi (N den : Nat) (hd : 0 < den) : N < 2 ^ 53 * (den * 2 ^ spacing N den) := by
  unfold spacing
  have h1 : N / den < 2 ^ (Nat.log2 (N / den) + 1) := Nat.lt_log2_self
  generalize Nat.log2 (N / den) = L at *
  have h2 : 2 ^ (L + 1) ≤ 2 ^ (53 + (L - 52)) := Nat.pow_le_pow_right (by decide) (by omega)
  have h3 : N / den < 2 ^ (53 + (L - 52)) := Nat.lt_of_lt_of_le h1 h2
  have h4 : N < 2 ^ (53 + (L - 52)) * den := (Nat.div_lt_iff_lt_mul hd).mp h3
  have h5 : 2 ^ (53 + (L - 52)) * den = 2 ^ 53 * (den * 2 ^ (L - 52)) := by
    rw [Nat.pow_add, Nat.mul_assoc, Nat.mul_comm (2 ^ (L - 52)) den]
  omega

/-- above the subnormal range the spacing is not too coarse: `2^52 ≤ N / (den·2^j)` -/
theorem spacing_lo (N den : Nat) (hd : 0 < den) (hj : 0 < spacing N den) :
    2 ^ 52 * (den * 2 ^ spacing N den) ≤ N := by
  unfold spacing at *
  have hq : N / den ≠ 0 := by
    intro h0; rw [h0] at hj; revert hj; decide
  have h1 : 2 ^ Nat.log2 (N / den) ≤ N / den := Nat.log2_self_le hq
  generalize Nat.log2 (N / den) = L at *
  have hL : L = 52 + (L - 52) := by omega
  have h2 : 2 ^ (52 + (L - 52)) ≤ N / den := by rw [← hL]; exact h1
  have h3 : 2 ^ (52 + (L - 52)) * den ≤ N := (Nat.le_div_iff_mul_le hd).mp h2
  have h5 : 2 ^ (52 + (L - 52)) * den = 2 ^ 52 * (den * 2 ^ (L - 52)) := by
    rw [Nat.pow_add, Nat.mul_assoc, Nat.mul_comm (2 ^ (L - 52)) den]
  omega

/-- the significand the model rounds to: at most `2^53` (a carry), at least `2^52` above the subnormal range -/
theorem sig_le (N den : Nat) (hd : 0 < den) :
    roundDivEven N (den * 2 ^ spacing N den) ≤ 2 ^ 53 :=
  roundDivEven_le _ _ _ (Nat.mul_pos hd (two_pow_pos _)) (spacing_hi N den hd)

theorem sig_ge (N den : Nat) (hd : 0 < den) (hj : 0 < spacing N den) :
    2 ^ 52 ≤ roundDivEven N (den * 2 ^ spacing N den) :=
  roundDivEven_ge _ _ _ (Nat.mul_pos hd (two_pow_pos _)) (spacing_lo N den hd hj)

/-! ## field assembly -/

theorem assemble_le_inf (j sig : Nat) : assemble j sig ≤ infBits := by
  unfold assemble
  split
  · exact Nat.le_refl _
  · omega

theorem assemble_fin (j sig : Nat) (hfin : assemble j sig < infBits) :
    assemble j sig = (if sig < 2 ^ 52 then sig else (j + 1) * 2 ^ 52 + (sig - 2 ^ 52)) := by
  unfold assemble at *
  split at hfin
  · omega
  · rename_i h; rw [if_neg h]; rfl

/-- the assembled pattern denotes exactly `sig · 2^j` (scaled), including the carry `sig = 2^53` -/
theorem scaled_assemble (j sig : Nat) (hs : sig ≤ 2 ^ 53) (hsub : sig < 2 ^ 52 → j = 0)
    (hfin : assemble j sig < infBits) : scaledOfBits (assemble j sig) = sig * 2 ^ j := by
  rw [assemble_fin j sig hfin]
  by_cases h52 : sig < 2 ^ 52
  · have hj := hsub h52
    subst hj
    rw [if_pos h52]
    unfold scaledOfBits
    have h1 : sig / 2 ^ 52 = 0 := Nat.div_eq_of_lt h52
    have h2 : sig % 2 ^ 52 = sig := Nat.mod_eq_of_lt h52
    simp [h1, h2]
  · rw [if_neg h52]
    unfold scaledOfBits
    by_cases hc : sig = 2 ^ 53
    · subst hc
      have h1 : ((j + 1) * 2 ^ 52 + (2 ^ 53 - 2 ^ 52)) / 2 ^ 52 = j + 2 := by omega
      have h2 : ((j + 1) * 2 ^ 52 + (2 ^ 53 - 2 ^ 52)) % 2 ^ 52 = 0 := by omega
      simp only [h1, h2]
      have h3 : j + 2 - 1 = j + 1 := by omega
      have h4 : ¬ (j + 2 = 0) := by omega
      rw [if_neg h4, h3, Nat.pow_succ 2 j]
      generalize 2 ^ j = X
      omega
    · have hf : sig - 2 ^ 52 < 2 ^ 52 := by omega
      have h1 : ((j + 1) * 2 ^ 52 + (sig - 2 ^ 52)) / 2 ^ 52 = j + 1 := by omega
      have h2 : ((j + 1) * 2 ^ 52 + (sig - 2 ^ 52)) % 2 ^ 52 = sig - 2 ^ 52 := by omega
      simp only [h1, h2]
      have h3 : 2 ^ 52 + (sig - 2 ^ 52) = sig := by omega
      have h4 : ¬ (j + 1 = 0) := by omega
      rw [if_neg h4, h3, Nat.add_sub_cancel]

/-- parity of the pattern is the parity of the significand (ties-to-even is visible in the last bit) -/
theorem assemble_parity (j sig : Nat) (hfin : assemble j sig < infBits) :
    assemble j sig % 2 = sig % 2 := by
  rw [assemble_fin j sig hfin]
  split
  · rfl
  · omega

/-! ## `ratToBits` returns a nearest double, ties to even -/

/-- the three quantities the model computes for `num/den` -/
theorem ratToBits_eq (num den : Nat) :
    ratToBits num den =
      assemble (spacing (num * 2 ^ 1074) den)
        (roundDivEven (num * 2 ^ 1074) (den * 2 ^ spacing (num * 2 ^ 1074) den)) := rfl

/-- the scaled value of the result is `sig · 2^j`: one rounding of `N / (den·2^j)`, nothing else -/
theorem ratToBits_scaled (num den : Nat) (hd : 0 < den) (hfin : ratToBits num den < infBits) :
    scaledOfBits (ratToBits num den) =
      roundDivEven (num * 2 ^ 1074) (den * 2 ^ spacing (num * 2 ^ 1074) den) * 2 ^ spacing (num * 2 ^ 1074) den := by
  rw [ratToBits_eq] at *
  apply scaled_assemble _ _ (sig_le _ _ hd) _ hfin
  intro hlt
  rcases Nat.eq_zero_or_pos (spacing (num * 2 ^ 1074) den) with h | h
  · exact h
  · have := sig_ge _ _ hd h; omega

/-- **nearest**: no double `m · 2^i` (`m < 2^53`, any `i ≥ 0` on the scaled grid — this includes all finite doubles and
    every larger binade) is closer to `num/den` than the value of `ratToBits num den`. Stated cross-multiplied by `den`
    with `N = num · 2^1074`: `|N − v·den| ≤ |N − m·2^i·den|`. -/
theorem ratToBits_nearest (num den : Nat) (hd : 0 < den) (hfin : ratToBits num den < infBits)
    (m i : Nat) (hm : m < 2 ^ 53) :
    dist (num * 2 ^ 1074) (scaledOfBits (ratToBits num den) * den)
      ≤ dist (num * 2 ^ 1074) (m * 2 ^ i * den) := by
  rw [ratToBits_scaled num den hd hfin]
  generalize hN : num * 2 ^ 1074 = N
  generalize hj : spacing N den = j
  have hP : 0 < den * 2 ^ j := Nat.mul_pos hd (two_pow_pos _)
  have e1 : roundDivEven N (den * 2 ^ j) * 2 ^ j * den = roundDivEven N (den * 2 ^ j) * (den * 2 ^ j) := by
    rw [Nat.mul_assoc, Nat.mul_comm (2 ^ j) den]
  rw [e1]
  by_cases hij : j ≤ i
  · -- the competitor is a multiple of the spacing
    have e2 : m * 2 ^ i * den = (m * 2 ^ (i - j)) * (den * 2 ^ j) := by
      have : i = (i - j) + j := by omega
      rw [this, Nat.pow_add, Nat.add_sub_cancel]
      simp only [Nat.mul_assoc, Nat.mul_comm, Nat.mul_left_comm]
    rw [e2]
    exact roundDivEven_nearest N (den * 2 ^ j) _ hP
  · -- the competitor lies in a lower binade: it is below `2^52 · 2^j`, itself a multiple and below `N`
    have hjpos : 0 < j := by omega
    have hlo : 2 ^ 52 * (den * 2 ^ j) ≤ N := by
      have := spacing_lo N den hd (by rw [hj]; exact hjpos)
      rw [hj] at this; exact this
    have hstep := roundDivEven_nearest N (den * 2 ^ j) (2 ^ 52) hP
    have hy : m * 2 ^ i * den ≤ 2 ^ 52 * (den * 2 ^ j) := by
      have h1 : m * 2 ^ i ≤ 2 ^ 53 * 2 ^ i := Nat.mul_le_mul_right _ (Nat.le_of_lt hm)
      have h2 : 2 ^ i * 2 ≤ 2 ^ j := by
        rw [← Nat.pow_succ]; exact Nat.pow_le_pow_right (by decide) (by omega)
      have h3 : 2 ^ 53 * 2 ^ i ≤ 2 ^ 52 * 2 ^ j := by
        have : 2 ^ 53 * 2 ^ i = 2 ^ 52 * (2 ^ i * 2) := by
          generalize 2 ^ i = X; omega
        rw [this]; exact Nat.mul_le_mul_left _ h2
      have h4 : m * 2 ^ i * den ≤ 2 ^ 52 * 2 ^ j * den := Nat.mul_le_mul_right _ (Nat.le_trans h1 h3)
      have h5 : 2 ^ 52 * 2 ^ j * den = 2 ^ 52 * (den * 2 ^ j) := by
        rw [Nat.mul_assoc, Nat.mul_comm (2 ^ j) den]
      omega
    generalize roundDivEven N (den * 2 ^ j) * (den * 2 ^ j) = S at *
    generalize 2 ^ 52 * (den * 2 ^ j) = B at *
    generalize m * 2 ^ i * den = Y at *
    unfold dist at *
    omega

/-- **within half a unit of the spacing** (`P = den · 2^j` is one unit, cross-multiplied) -/
theorem ratToBits_half_unit (num den : Nat) (hd : 0 < den) (hfin : ratToBits num den < infBits) :
    2 * dist (num * 2 ^ 1074) (scaledOfBits (ratToBits num den) * den)
      ≤ den * 2 ^ spacing (num * 2 ^ 1074) den := by
  rw [ratToBits_scaled num den hd hfin]
  generalize num * 2 ^ 1074 = N
  generalize spacing N den = j
  have hP : 0 < den * 2 ^ j := Nat.mul_pos hd (two_pow_pos _)
  have e1 : roundDivEven N (den * 2 ^ j) * 2 ^ j * den = roundDivEven N (den * 2 ^ j) * (den * 2 ^ j) := by
    rw [Nat.mul_assoc, Nat.mul_comm (2 ^ j) den]
  rw [e1]
  have ⟨h1, h2⟩ := roundDivEven_near N (den * 2 ^ j) hP
  generalize roundDivEven N (den * 2 ^ j) * (den * 2 ^ j) = S at *
  unfold dist; omega

/-- **ties to even**: when `num/den` is exactly halfway between two adjacent grid points the pattern is even -/
theorem ratToBits_tie_even (num den : Nat) (hfin : ratToBits num den < infBits)
    (htie : 2 * ((num * 2 ^ 1074) % (den * 2 ^ spacing (num * 2 ^ 1074) den))
              = den * 2 ^ spacing (num * 2 ^ 1074) den) :
    ratToBits num den % 2 = 0 := by
  rw [ratToBits_eq] at *
  rw [assemble_parity _ _ hfin]
  exact roundDivEven_tie_even _ _ htie

end C14
