import Cellml.Tie.UnitDefsDen
import Cellml.Units.WorklistLemmas
import Mathlib.Tactic.SplitIfs

/-! # Tie: `Parser._add_units` (generated from the source of parser.py: the set-up pass `addUnitsSetup` and the body
    `addUnitsBody` of the `while definitions_to_add:` loop) = the hand model `Units.addBases` / `Units.queue` /
    `Units.loop` / `Units.ready` / `Units.addNow` (Units/Worklist.lean), which `Cellml.Props.C03` is about.

    Representation: the python deque is a list whose LAST element is the right end (`append` = `++ [x]`, `pop()` takes
    the last, `appendleft` = `x :: ·`); the model's deque has its HEAD at the right end: `pyDeque` reverses. The python
    set `units_found` is the list `st.known ++ cellmlUnits` (newest first, built-ins last): the tie proves that the
    code keeps it equal to the names the unit store knows, which is what the model assumes (`Store.isDefined`). -/

namespace Cellml.Tie.PUnitDefs
open Units Cellml.Gen

/-- the python deque of a model deque: (name, attribute dicts) pairs, right end last -/
def pyDeque (dq : List UDef) : List (String × List UnitElem) := (dq.map (fun d => (d.name, d.elems))).reverse

/-- and back (queued definitions are never base units) -/
def ofPyDeque (dq : List (String × List UnitElem)) : List UDef := (dq.map (fun p => (⟨p.1, false, p.2⟩ : UDef))).reverse

/-- `units_found` as a function of the unit store -/
def foundOf (st : Store) : List String := st.known ++ cellmlUnits

theorem isIn_found (st : Store) (n : String) : Py.isIn n (foundOf st) = st.isDefined n := by
  simp [Py.isIn, foundOf, Store.isDefined, Bool.or_comm]

theorem ofPy_py (dq : List UDef) (h : ∀ d ∈ dq, d.base = false) : ofPyDeque (pyDeque dq) = dq := by
  induction dq with
  | nil => rfl
  | cons d rest ih =>
    have hd := h d List.mem_cons_self
    have := ih (fun x hx => h x (List.mem_cons_of_mem _ hx))
    simp only [ofPyDeque, pyDeque, List.map_cons, List.reverse_cons, List.map_append, List.map_reverse,
      List.reverse_append, List.reverse_reverse, List.map_map, List.map_nil, List.reverse_nil, List.nil_append,
      List.cons_append] at this ⊢
    rw [this]
    cases d; simp_all

/-! ## generic: `for` loops -/

theorem forIn_break {α σ ε : Type} (l : List α) (init : σ) (f : α → σ → Except ε (ForInStep σ))
    (p : α → Bool) (g : σ → σ)
    (h : ∀ a s, f a s = if p a then .ok (.done (g s)) else .ok (.yield s)) :
    forIn l init f = .ok (if l.any p then g init else init) := by
  induction l with
  | nil => simp [pure, Except.pure]
  | cons a l ih =>
    rw [List.forIn_cons, h]
    by_cases hb : p a = true
    · simp [hb, bind, Except.bind, pure, Except.pure]
    · simp [hb, bind, Except.bind, ih]

/-! ## the set-up pass: base units at once, the others queued in document order -/

theorem setup_loop
    (f : UDef → UStore × List String × List (String × List UnitElem) →
      Except PyErr (ForInStep (UStore × List String × List (String × List UnitElem))))
    (h : ∀ d u found dq, f d (u, found, dq) =
      if d.base then
        match addBaseUnit u.1 u.2 d.name with
        | .ok r => .ok (.yield (r, d.name :: found, dq))
        | .error e => .error ⟨addErrClass e⟩
      else .ok (.yield (u, found, dq ++ [(d.name, d.elems)]))) :
    ∀ (l : List UDef) (reg : Registry) (st : Store) (dq : List (String × List UnitElem)),
      forIn l ((reg, st), foundOf st, dq) f =
        match addBases reg st l with
        | .ok (reg', st') =>
            .ok ((reg', st'), foundOf st', dq ++ (l.filter (fun d => !d.base)).map (fun d => (d.name, d.elems)))
        | .error e => .error ⟨addErrClass e⟩ := by
  intro l
  induction l with
  | nil => intro reg st dq; simp [addBases, pure, Except.pure]
  | cons d l ih =>
    intro reg st dq
    rw [List.forIn_cons, h]
    by_cases hb : d.base = true
    · simp only [hb, if_true, addBases]
      cases ha : addBaseUnit reg st d.name with
      | error e => simp [bind, Except.bind]
      | ok r =>
        obtain ⟨_, hr⟩ := addBaseUnit_ok ha
        subst hr
        simp only [bind, Except.bind]
        have := ih ((prefixName st.id d.name, UnitDef.base (some ("[" ++ prefixName st.id d.name ++ "]"))) :: reg)
          { st with known := d.name :: st.known } dq
        simp only [foundOf, List.cons_append] at this ⊢
        rw [this]
        simp [hb]
    · simp only [hb, addBases, Bool.false_eq_true, if_false, bind, Except.bind]
      rw [ih]
      cases addBases reg st l with
      | error e => rfl
      | ok r => simp [hb]

/-- THE SET-UP PASS of `_add_units` on a fresh unit store (`_known_units` empty, as `Model.__init__` creates it) is
    `Units.addBases` followed by `Units.queue`; `iteration` starts at 0 and `units_found` holds the built-in names and
    the base units just added -/
theorem addUnitsSetup_tie (defs : List UDef) (reg : Registry) (st : Store) (hfresh : st.known = []) :
    UnitDefs.addUnitsSetup defs (reg, st) =
      match addBases reg st defs with
      | .ok (reg', st') => .ok (pyDeque (queue defs), 0, foundOf st', (reg', st'))
      | .error e => .error ⟨addErrClass e⟩ := by
  unfold UnitDefs.addUnitsSetup
  simp only []
  have hf : cellmlUnits = foundOf st := by simp [foundOf, hfresh]
  rw [hf, setup_loop _ _ defs reg st []]
  · cases addBases reg st defs with
    | error e => rfl
    | ok r => simp [bind, Except.bind, pure, Except.pure, pyDeque, queue]
  · intro d u found dq
    by_cases hb : d.base = true
    · simp only [baseUnitsAttr, hb, if_true, addBaseUnitLeaf, errClass]
      cases addBaseUnit u.1 u.2 d.name <;> simp [errClass, bind, Except.bind, pure, Except.pure]
    · simp [baseUnitsAttr, hb, UnitElem.attrib, pure, Except.pure]

/-! ## the body of the `while` loop -/

/-- what one iteration of the model loop `Units.loop` does to (deque, iteration, unit store) -/
def modelIter (reg : Registry) (st : Store) (dq : List UDef) (it : Nat) :
    Except PyErr (List UDef × Nat × Registry × Store) :=
  match dq with
  | [] => .error ⟨"IndexError"⟩
  | d :: rest =>
    if ready st d then
      match addNow reg st d with
      | .ok r => .ok (rest, 0, r)
      | .error e => .error ⟨addErrClass e⟩
    else if it + 1 > (rest ++ [d]).length then .error ⟨addErrClass stuck⟩
    else .ok (rest ++ [d], it + 1, reg, st)

theorem popRight_snoc {α} (l : List α) (a : α) : popRight (l ++ [a]) = .ok (a, l) := by
  simp [popRight]

theorem elemExpr_names (e : UnitElem) : (elemExpr e).names = [e.units] := by
  obtain ⟨u, pf, ex, mu, off⟩ := e
  cases pf <;> cases ex <;> cases mu <;> rfl

/-- the hand model `Units.addUnit` IS the offset test of the parser followed by `Units.addUnitWith`, the function the
    leaf `add_unit` of this package is bound to -/
theorem addUnit_eq_with (reg : Registry) (st : Store) (name : String) (elems : List UnitElem)
    (h : elems.any elemOffsetBad = false) :
    addUnit reg st name elems = addUnitWith (refsKnown reg st.id elems) (defMeaning st.id elems) reg st name :=
  addUnit_noOffset h

/-- the `add_now` branch: `_make_pint_unit_definition`, `is_defined`, the `ValueError`, `add_unit` = `Units.addNow` -/
theorem addNow_tie (reg : Registry) (st : Store) (d : UDef) :
    (do let definition ← UnitDefs.makePintUnitDefinition d.name d.elems
        if isDefined (reg, st) d.name = true then throw (PyErr.mk "ValueError")
        addUnitLeaf (reg, st) d.name definition) = errClass addErrClass (addNow reg st d) := by
  rw [makeDef_tie]
  unfold addNow
  have h5 : ((d.elems.map elemExpr).all fun e => e.names.all fun n => allKnown reg (nameContainer (mangle st.id n))) =
      refsKnown reg st.id d.elems := by
    simp [refsKnown, List.all_map, Function.comp_def, elemExpr_names]
  by_cases h1 : d.elems.any elemOffsetBad = true
  · simp [h1, bind, Except.bind, errClass, addErrClass]
  have h1' : d.elems.any elemOffsetBad = false := by simpa using h1
  simp only [h1, Bool.false_eq_true, if_false, bind, Except.bind, isDefined, addUnitLeaf, h5]
  by_cases h2 : st.isDefined d.name = true
  · simp [h2, throw, throwThe, MonadExceptOf.throw, errClass, addErrClass]
  · rw [denAll_map _ _ h1', addUnit_eq_with _ _ _ _ h1']
    simp [h2, pure, Except.pure]

/-- `is_defined(name)` is `name in _known_units`, built-ins included (the model's `Store.isDefined`, tied by
    `PUnits.isDefined_tie`). Were it read as "a name THIS store added" (an earlier version of this view did), nothing
    observable would change for `_add_units`: a definition named like a built-in would fall through to `add_unit`,
    whose first test raises the same class (`ValueError('Cannot redefine CellML unit')` instead of
    `ValueError('Duplicate unit definition')`). The two formulations are equal on all inputs, up to the message: -/
theorem addNow_known_only (reg : Registry) (st : Store) (d : UDef) :
    errClass addErrClass (addNow reg st d) =
      errClass addErrClass (if d.elems.any elemOffsetBad then .error (.valueError "offset")
        else if st.known.contains d.name then .error (.valueError "duplicate")
        else addUnit reg st d.name d.elems) := by
  unfold addNow Store.isDefined
  by_cases h1 : d.elems.any elemOffsetBad = true
  · simp [h1]
  have h1' : d.elems.any elemOffsetBad = false := by simpa using h1
  by_cases h2 : d.name ∈ st.known
  · simp [h1, h2, errClass, addErrClass]
  by_cases h3 : d.name ∈ cellmlUnits
  · rw [addUnit_noOffset h1']
    unfold addUnitWith
    simp [h1, h2, h3, errClass, addErrClass]
  · simp [h1, h2, h3]

/-- THE BODY of the `while definitions_to_add:` loop of `_add_units`, for every deque, counter and unit store, with
    `units_found` in step with the store: one iteration of the model loop (`Units.ready`, `Units.addNow`, the re-queue
    at the left end, the counter and the `ValueError` for cycles); `units_found` stays in step -/
theorem addUnitsBody_tie (reg : Registry) (st : Store) (dq : List UDef) (it : Nat) :
    UnitDefs.addUnitsBody (pyDeque dq) it (foundOf st) (reg, st) =
      (modelIter reg st dq it).map (fun r => (pyDeque r.1, r.2.1, foundOf r.2.2.2, r.2.2)) := by
  unfold UnitDefs.addUnitsBody modelIter
  cases dq with
  | nil => simp [pyDeque, popRight, bind, Except.bind, Except.map]
  | cons d rest =>
    have hpy : pyDeque (d :: rest) = pyDeque rest ++ [(d.name, d.elems)] := by simp [pyDeque]
    simp only [hpy, popRight_snoc, bind, Except.bind]
    rw [forIn_break (p := fun u => !Py.isIn (u.get! "units") (foundOf st))
      (g := fun s => ((d.name, d.elems) :: s.1, false))]
    · have hany : (d.elems.any fun u => !Py.isIn (u.get! "units") (foundOf st)) = !ready st d := by
        simp only [ready, get_units, isIn_found]
        induction d.elems with
        | nil => rfl
        | cons e es ih => simp only [List.any_cons, List.all_cons, ih, Bool.not_and]
      simp only [hany]
      by_cases hr : ready st d = true
      · simp only [hr, Bool.not_true, Bool.false_eq_true, if_false, Py.truthy_bool, if_true]
        have hn := addNow_tie reg st d
        simp only [bind, Except.bind] at hn
        cases hm : UnitDefs.makePintUnitDefinition d.name d.elems with
        | error e =>
          rw [hm] at hn
          cases ha : addNow reg st d with
          | error e' => rw [ha] at hn; simp only [errClass] at hn; injection hn with hn; simp [hn, Except.map]
          | ok r => rw [ha] at hn; simp [errClass] at hn
        | ok defn =>
          rw [hm] at hn
          simp only at hn ⊢
          by_cases hdup : isDefined (reg, st) d.name = true
          · simp only [hdup, if_true, throw, throwThe, MonadExceptOf.throw] at hn ⊢
            cases ha : addNow reg st d with
            | error e' =>
              rw [ha] at hn; simp only [errClass] at hn; injection hn with hn; injection hn with hn
              simp [← hn, Except.map]
            | ok r => rw [ha] at hn; simp [errClass] at hn
          · simp only [hdup, Bool.false_eq_true, if_false, pure, Except.pure] at hn ⊢
            rw [hn]
            cases ha : addNow reg st d with
            | error e' => simp [errClass, Except.map]
            | ok r =>
              obtain ⟨reg', st'⟩ := r
              obtain ⟨hst, _, _⟩ := addNow_state ha
              subst hst
              simp [errClass, Except.map, foundOf]
      · simp only [hr, Bool.not_false, if_true, Py.truthy_bool, Bool.false_eq_true, if_false]
        have hlen : (pyDeque rest).length = rest.length := by simp [pyDeque]
        have hpy2 : pyDeque (rest ++ [d]) = (d.name, d.elems) :: pyDeque rest := by simp [pyDeque]
        by_cases hgt : it + 1 > (rest ++ [d]).length
        · have : it + 1 > rest.length + 1 := by simpa using hgt
          simp [hgt, this, hlen, throw, throwThe, MonadExceptOf.throw, Except.map, stuck, addErrClass]
        · have : ¬ it + 1 > rest.length + 1 := by simpa using hgt
          simp [hgt, this, hlen, hpy2, pure, Except.pure, Except.map]
    · intro u s
      by_cases hp : (!Py.isIn (u.get! "units") (foundOf st)) = true <;> simp [hp, pure, Except.pure]

/-- the test of the `while` statement -/
theorem addUnitsBody_test_tie (dq : List UDef) : UnitDefs.addUnitsBody_test (pyDeque dq) = !dq.isEmpty := by
  cases dq <;> simp [UnitDefs.addUnitsBody_test, pyDeque]

/-! ## the model loop IS the `while` loop over the generated body -/

theorem loop_nil (reg : Registry) (st : Store) (it : Nat) (h : it ≤ ([] : List UDef).length) :
    loop reg st [] it h = .ok (reg, st) := by
  unfold loop; rfl

/-- `Units.loop` stops on the empty deque (`loop_nil`, `addUnitsBody_test_tie`) and otherwise runs the generated body
    once and continues from the deque, counter and unit store the body returns -/
theorem loop_cons (reg : Registry) (st : Store) (d : UDef) (rest : List UDef) (it : Nat)
    (h : it ≤ (d :: rest).length) (hb : ∀ x ∈ d :: rest, x.base = false) :
    errClass addErrClass (loop reg st (d :: rest) it h) =
      match UnitDefs.addUnitsBody (pyDeque (d :: rest)) it (foundOf st) (reg, st) with
      | .error e => .error e
      | .ok (dq', it', _, (reg', st')) =>
        if h' : it' ≤ (ofPyDeque dq').length then errClass addErrClass (loop reg' st' (ofPyDeque dq') it' h')
        else .error ⟨"AssertionError"⟩ := by
  rw [addUnitsBody_tie]
  unfold modelIter
  rw [loop]
  have hrest : ∀ x ∈ rest, x.base = false := fun x hx => hb x (List.mem_cons_of_mem _ hx)
  by_cases hr : ready st d = true
  · simp only [hr, if_true]
    cases ha : addNow reg st d with
    | error e => simp [errClass, Except.map]
    | ok r =>
      obtain ⟨reg', st'⟩ := r
      simp only [Except.map, ofPy_py rest hrest, Nat.zero_le, dite_true]
  · simp only [hr, Bool.false_eq_true, if_false]
    have hb' : ∀ x ∈ rest ++ [d], x.base = false := by
      intro x hx
      rcases List.mem_append.mp hx with hx | hx
      · exact hrest x hx
      · simp only [List.mem_singleton] at hx; subst hx; exact hb _ List.mem_cons_self
    by_cases hgt : it + 1 > (rest ++ [d]).length
    · rw [dif_pos hgt, if_pos hgt]; simp [errClass, Except.map]
    · rw [dif_neg hgt, if_neg hgt]
      simp only [Except.map, ofPy_py _ hb']
      rw [dif_pos (by omega)]

/-- … and the deque of `Units.addUnits` is made of non-base definitions only -/
theorem queue_not_base (defs : List UDef) : ∀ x ∈ queue defs, x.base = false :=
  fun _ hx => (mem_queue.mp hx).2

/-- `Units.addUnits` (the function of the C03 theorems) = the generated set-up pass on a fresh unit store, then the
    model loop — which by `loop_nil` / `loop_cons` is the `while` loop over the generated body — from the deque and
    the counter the set-up returns -/
theorem addUnits_tie (id : Nat) (defs : List UDef) :
    errClass addErrClass (addUnits id defs) =
      match UnitDefs.addUnitsSetup defs (builtinRegistry, { id := id, known := [] }) with
      | .error e => .error e
      | .ok (dq, it, _, (reg, st)) =>
        if h : it ≤ (ofPyDeque dq).length then errClass addErrClass (loop reg st (ofPyDeque dq) it h)
        else .error ⟨"AssertionError"⟩ := by
  rw [addUnitsSetup_tie defs _ _ rfl]
  unfold addUnits
  cases addBases builtinRegistry { id := id, known := [] } defs with
  | error e => simp [errClass]
  | ok r =>
    obtain ⟨reg, st⟩ := r
    simp only [ofPy_py _ (queue_not_base defs), Nat.zero_le, dite_true]

end Cellml.Tie.PUnitDefs
