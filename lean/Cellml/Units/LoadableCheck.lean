import Cellml.Units.WorklistComplete

/-! An executable sufficient test for `Loadable` (given a candidate order), so that concrete documents can be shown
    loadable by evaluation; used for the non-vacuity examples and the proved counterexamples of `Props/C03.lean`. -/

namespace Units
open PMap

def localOKb (id : Nat) (d : UDef) : Bool :=
  !d.elems.any elemOffsetBad && !Cellml.Gen.unsupportedUnits.contains d.name &&
    match defMeaning id d.elems with
    | .ok (_, c, md) => !md || decide (norm c = [])
    | .error _ => false

theorem localOK_of_b {id : Nat} {d : UDef} (h : localOKb id d = true) : LocalOK id d := by
  unfold localOKb at h
  simp only [Bool.and_eq_true, Bool.not_eq_true'] at h
  obtain ⟨⟨h1, h2⟩, h3⟩ := h
  refine ⟨h1, h2, ?_⟩
  split at h3
  · rename_i k c md hd
    refine ⟨k, c, md, hd, ?_⟩
    intro hm
    rw [hm] at h3
    simpa using h3
  · cases h3

def topoB (ks : List String) : List UDef → Bool
  | [] => true
  | d :: ds => d.elems.all (fun e => ks.contains e.units) && topoB (d.name :: ks) ds

theorem topo_of_b : ∀ (ord : List UDef) (ks : List String), topoB ks ord = true → Topo (fun n => n ∈ ks) ord := by
  intro ord
  induction ord with
  | nil => intro _ _; trivial
  | cons d ds ih =>
      intro ks h
      simp only [topoB, Bool.and_eq_true] at h
      refine ⟨fun e he => List.contains_iff_mem.mp (List.all_eq_true.mp h.1 e he), ?_⟩
      refine Topo.mono ?_ _ (ih _ h.2)
      intro n hn
      rcases List.mem_cons.mp hn with h | h
      · exact Or.inr h
      · exact Or.inl h

/-- `ord` is a witness that `defs` is loadable -/
def loadableB (id : Nat) (defs ord : List UDef) : Bool :=
  decide (defs.map (·.name)).Nodup && defs.all (fun d => !Cellml.Gen.cellmlUnits.contains d.name) &&
    defs.all (fun d => d.base || localOKb id d) && decide (ord.Perm (queue defs)) &&
    topoB (Cellml.Gen.cellmlUnits ++ (basesOf defs).map (·.name)) ord

theorem loadable_of_b {id : Nat} {defs ord : List UDef} (h : loadableB id defs ord = true) : Loadable id defs := by
  unfold loadableB at h
  simp only [Bool.and_eq_true, decide_eq_true_eq] at h
  obtain ⟨⟨⟨⟨h1, h2⟩, h3⟩, h4⟩, h5⟩ := h
  refine ⟨h1, ?_, ?_, ⟨ord, h4, ?_⟩⟩
  · intro d hd
    have := List.all_eq_true.mp h2 d hd
    simpa using this
  · intro d hd hb
    have := List.all_eq_true.mp h3 d hd
    rw [hb, Bool.false_or] at this
    exact localOK_of_b this
  · refine Topo.mono ?_ _ (topo_of_b ord _ h5)
    intro n hn
    rcases List.mem_append.mp hn with h | h
    · exact Or.inl (List.contains_iff_mem.mpr h)
    · exact Or.inr h

/-- reading results off the fuel-bounded loop (which the kernel can evaluate) -/
def fuelOk (id : Nat) (defs : List UDef) : Bool :=
  match addUnitsFuel id defs with
  | some (.ok _) => true
  | _ => false

def fuelError (id : Nat) (defs : List UDef) : Option AddErr :=
  match addUnitsFuel id defs with
  | some (.error e) => some e
  | _ => none

/-- normal forms of what `get_base_units(get_unit(name))` returns after loading `defs` -/
def loadedMeaning (id : Nat) (defs : List UDef) (name : String) : Option (Scale × Container) :=
  match addUnitsFuel id defs with
  | some (.ok (reg, st)) => some (norm (meaningOf reg st name).1, norm (meaningOf reg st name).2)
  | _ => none

end Units
