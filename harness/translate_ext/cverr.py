"""Extension of the code translator for the ConvertVarE package (`convert_variable` with the exception class AND the
model state at the raise).

`StateRaiseFn` adds ONE rule; everything else defers to `translate_code.Fn`: a python `raise E(...)` / a failing
`assert` of the translated function becomes `throw (Raised.mk "E" <st>)` instead of `throw (PyErr.mk "E")`, where `<st>`
is the spec key `'raise_state'` - the name of the explicitly threaded state variable (python mutates `self`, the
generated code threads `st`). So an exception raised by the translated function itself carries the state the python
object is in at that statement, exactly like the exceptions of the leaves (`addEqE`, `removeEqE`, … answer the state
their python method leaves behind). The class name still flows from the source text. A bare `raise` (re-raise) is
untouched."""
import re

from translate_code import Fn

_THROW = re.compile(r'^throw \(PyErr\.mk ("(?:[^"\\]|\\.)*")\)$')


class StateRaiseFn(Fn):
    def emit(self, ind, text):
        m = _THROW.match(text.strip())
        if m:
            text = 'throw (Raised.mk %s %s)' % (m.group(1), self.spec.get('raise_state', 'st'))
        super().emit(ind, text)
