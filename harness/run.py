#!/venv/bin/python
"""check <Cxx> --tier quick|thorough [--replay file]      (VERIF_SEED, default 0)

 1. (T) translate the tables of /repo's working tree into lean/Cellml/Generated/Tables.lean
 2. lake build the property's theorem modules and the model driver       -> kernel re-checks what changed
 3. audit: forbidden tokens outside comments; axioms of every theorem of the property modules
 4. corpus (known-finding witnesses, fixed witnesses, past disagreements) then seeded cases:
    (C) correspondence  model driver  vs  implementation (public API, in-process)
    property oracle on the implementation, independent of the model
 5. evidence/<Cxx>.json; KNOWN-FINDING lines; exit 0  —  or VIOLATION line; exit 1.   exit 2: infrastructure.

A broken proof / audit / correspondence is not yet a violation: the check then searches (oracle only, budget
x SEARCH_SCALE) for an input on which the implementation breaks the property. Found -> VIOLATION with that
replay; not found -> VIOLATION naming what no longer checks, ending `no-failing-input-found`.
"""
import argparse
import importlib
import json
import multiprocessing
import os
import sys
import time
import traceback

sys.path.insert(0, os.path.dirname(os.path.abspath(__file__)))
import common  # noqa: E402
import logging  # noqa: E402
logging.disable(logging.CRITICAL)   # cellmlmanip logs warnings for every rejected expression

SEARCH_SCALE = 8


def _impl_worker(args):
    modname, case = args
    mod = importlib.import_module(modname)
    try:
        return mod.impl(case)
    except Exception as e:  # harness bug or unexpected crash inside the implementation: surfaced by oracle/compare
        return {'__crash__': '%s: %s' % (type(e).__name__, e), '__trace__': traceback.format_exc()[-1500:]}


def run_impl(mod, cases, jobs):
    if getattr(mod, 'SERIAL', False) or jobs <= 1 or len(cases) < 8:
        return [_impl_worker((mod.__name__, c)) for c in cases]
    with multiprocessing.get_context('fork').Pool(jobs) as pool:
        return pool.map(_impl_worker, [(mod.__name__, c) for c in cases], chunksize=max(1, len(cases) // (jobs * 8)))


def known_key(findings, key):
    for f in findings:
        if f.get('status') == 'known' and (key == f.get('key') or key.startswith(f.get('key', '\0') + ':')):
            return f
    return None


def main():
    ap = argparse.ArgumentParser()
    ap.add_argument('prop')
    ap.add_argument('--tier', default=os.environ.get('VERIF_TIER', 'quick'), choices=['quick', 'thorough'])
    ap.add_argument('--replay')
    ap.add_argument('--jobs', type=int, default=int(os.environ.get('VERIF_JOBS', '14')))
    ap.add_argument('--no-build', action='store_true', help='debugging only: skip translate/build/audit')
    args = ap.parse_args()
    prop = args.prop.upper()
    seed = int(os.environ.get('VERIF_SEED', '0') or 0)
    t0 = time.time()
    mod = importlib.import_module('props.' + prop.lower())
    findings = common.load_findings(prop)

    if args.replay:
        return replay(mod, prop, args.replay)

    # -------------------------------------------------------------------------------- 1-3 proof side
    proof_notes, broken = [], []
    thms, bad_axioms = {}, {}
    if not args.no_build:
        ok, log = common.translate()
        if not ok:
            broken.append('translator failed: ' + log[-400:])
        ok, log = common.lake_build(list(mod.LEAN_MODULES))
        if not ok:
            errs = [l for l in log.split('\n') if 'error' in l][:6]
            broken.append('lake build of %s failed: %s' % (','.join(mod.LEAN_MODULES), ' | '.join(errs)))
        dok, dlog = common.lake_build(['driver'])
        if not dok:
            raise common.Infra('model driver does not build: ' + dlog[-800:])
        if ok:
            aok, thms, bad_axioms, alog = common.audit(list(mod.LEAN_MODULES))
            if not aok:
                broken.append('axiom audit failed: %s' % (bad_axioms or alog[-400:]))
            hits = common.grep_forbidden(common.lean_files(list(mod.LEAN_MODULES)))
            if hits:
                broken.append('forbidden tokens: ' + '; '.join(hits[:5]))
            if args.tier == 'thorough':
                # independent re-check of the compiled .olean files of the property modules
                rc, out = common.run(['lake', 'env', 'leanchecker'] + list(mod.LEAN_MODULES), cwd=common.LEAN, timeout=3000)
                proof_notes.append('leanchecker rc=%d' % rc)
                if rc != 0:
                    broken.append('leanchecker rejected the compiled modules: ' + out[-300:])
    fp_cur, drift = common.fingerprint_drift(prop, getattr(mod, 'FINGERPRINT', {}))
    n = mod.N[args.tier]
    if drift and args.tier == 'quick':
        n = max(n, min(mod.N['thorough'], n * 4))  # modelled code changed: correspondence at a larger size
        proof_notes.append('fingerprint drift: ' + ', '.join(drift))

    # -------------------------------------------------------------------------------- 4 cases
    rng = common.rng_for(seed, prop, args.tier)
    corpus = list(getattr(mod, 'corpus', lambda: [])())
    for f in findings:
        if 'witness' in f:
            corpus.append(dict(f['witness'], __finding__=f.get('key'), __status__=f.get('status')))
    cases = corpus + list(mod.gen(rng, n, args.tier))
    result = explore(mod, cases, findings, args.jobs, with_model=True)

    violations = list(result['violations'])
    replay_path, tail = None, ''
    if violations:
        v = violations[0]
        replay_path = common.write_replay(prop, 'violation', {
            'property': prop, 'kind': 'property-violated-on-implementation', 'case': v['case'],
            'failures': v['failures'], 'observation': v['obs'],
            'how_to_replay': './check %s --replay <this file>' % prop})
    elif broken or result['mismatches']:
        # ---------------------------------------------------------------------------- search
        what = broken + ['correspondence: ' + m['mismatch'] for m in result['mismatches'][:3]]
        srng = common.rng_for(seed, prop, 'search')
        focus = [m['case'] for m in result['mismatches']]
        extra = list(getattr(mod, 'search_cases', lambda rng, focus, n: [])(srng, focus, n * SEARCH_SCALE))
        scases = focus + extra + list(mod.gen(srng, n * SEARCH_SCALE, 'thorough'))
        # the search runs in chunks under a wall-clock budget: it stops at the first failing input, or when the budget
        # is used up (then the verdict is `no-failing-input-found`, naming what no longer checks)
        budget = float(os.environ.get('VERIF_SEARCH_SECONDS', '420' if args.tier == 'quick' else '3600'))
        t_search = time.time()
        chunk = max(16, min(400, len(scases) // 8 or 16))
        sres = {'violations': []}
        searched = 0
        for k in range(0, len(scases), chunk):
            part = explore(mod, scases[k:k + chunk], findings, args.jobs, with_model=False)
            searched += len(scases[k:k + chunk])
            if part['violations']:
                sres = part
                break
            if time.time() - t_search > budget:
                break
        scases = scases[:searched]
        if sres['violations']:
            v = sres['violations'][0]
            violations = sres['violations']
            replay_path = common.write_replay(prop, 'violation', {
                'property': prop, 'kind': 'property-violated-on-implementation', 'found_by': 'search after: ' + '; '.join(what)[:600],
                'case': v['case'], 'failures': v['failures'], 'observation': v['obs'],
                'how_to_replay': './check %s --replay <this file>' % prop})
        else:
            violations = [{'case': None, 'failures': what}]
            replay_path = common.write_replay(prop, 'unproved', {
                'property': prop, 'kind': 'no-longer-shown-to-hold',
                'broken_obligations': broken,
                'correspondence_mismatches': result['mismatches'][:5],
                'searched_cases': len(scases)})
            tail = ' no-failing-input-found'

    # -------------------------------------------------------------------------------- 5 evidence
    obligations = len(thms)
    discharged = 0 if broken else len([t for t in thms if t not in bad_axioms])
    coverage = {
        'obligations': max(obligations, 1), 'discharged': discharged if not broken else 0,
        'checker_cmd': 'cd lean && lake build %s && lake env lean <#audit_module of each>' % ' '.join(mod.LEAN_MODULES),
        'trusted_base': list(getattr(mod, 'TRUSTED', [])),
        'theorems': sorted(thms),
        'axioms_used': sorted({a for ax in thms.values() for a in ax}),
        'evaluations': result['evaluations'],
        'distinct_nontrivial': result['distinct_nontrivial'],
        'rule': getattr(mod, 'RULE', ''),
        'samples': result['samples'],
        'correspondence_cases': result['compared'],
        'correspondence_mismatches': len(result['mismatches']),
        'oracle_failures_matching_known_findings': result['known_hits'],
        'histogram': result['histogram'],
        'fingerprint_drift': drift,
        'proof_notes': proof_notes + broken,
        'exhaustive': False,
    }
    wall = time.time() - t0
    if not args.no_build:   # a debugging run without build/audit is not evidence
        common.write_evidence(prop, args.tier, seed, coverage, list(getattr(mod, 'ASSUMPTIONS', [])), wall,
                              len(violations))
    for f in result['known_lines']:
        print('KNOWN-FINDING: property=%s %s' % (prop, f))
    print('%s %s seed=%d: %d theorems audited, %d cases (%d distinct non-trivial), %d compared with the model, '
          '%d mismatches, %.1fs' % (prop, args.tier, seed, obligations, result['evaluations'],
                                    result['distinct_nontrivial'], result['compared'], len(result['mismatches']), wall))
    if violations:
        print('VIOLATION property=%s replay=%s%s' % (prop, replay_path, tail))
        return 1
    return 0


def explore(mod, cases, findings, jobs, with_model):
    """Run implementation (+ model) on the cases. Returns counts, mismatches, violations."""
    obs = run_impl(mod, cases, jobs)
    replies = [None] * len(cases)
    compared = 0
    if with_model:
        reqs, owner = [], []
        for i, (c, o) in enumerate(zip(cases, obs)):
            if isinstance(o, dict) and '__crash__' in o:
                continue
            for line in mod.requests(c, o):
                reqs.append(line)
                owner.append(i)
        answers = common.ask_model(reqs) if reqs else []
        grouped = {}
        for i, a in zip(owner, answers):
            grouped.setdefault(i, []).append(a)
        for i, g in grouped.items():
            replies[i] = g
    mismatches, violations, known_hits, known_lines = [], [], 0, []
    seen, hist, samples = set(), {}, []
    for i, (c, o) in enumerate(zip(cases, obs)):
        crashed = isinstance(o, dict) and '__crash__' in o
        if crashed:
            fails = [{'key': 'harness-crash', 'detail': o['__crash__'] + '\n' + o.get('__trace__', '')}]
        else:
            fails = list(mod.oracle(c, o))
            if with_model and replies[i] is not None:
                compared += 1
                mm = mod.compare(c, o, replies[i])
                if mm:
                    mismatches.append({'case': strip(c), 'mismatch': mm})
            tag = mod.tag(c, o) if hasattr(mod, 'tag') else 'case'
            hist[tag] = hist.get(tag, 0) + 1
            if mod.nontrivial(c, o):
                seen.add(json.dumps(strip(c), sort_keys=True, default=str))
            if len(samples) < 4 and i >= len(cases) - max(4, len(cases) // 2):
                samples.append({'case': strip(c), 'observation': o if len(json.dumps(o, default=str)) < 1500 else '…'})
        unknown = []
        for f in fails:
            kf = known_key(findings, f['key']) if c.get('__status__') != 'fixed' else None
            if kf is not None:
                known_hits += 1
                if c.get('__finding__') == kf.get('key'):
                    known_lines.append('%s — %s' % (kf['key'], kf.get('what', '')))
            else:
                unknown.append(f)
        if unknown:
            violations.append({'case': strip(c), 'failures': unknown, 'obs': o})
    if hasattr(mod, 'shrink') and violations:
        try:
            violations[0] = mod.shrink(violations[0]) or violations[0]
        except Exception:
            pass
    return {'evaluations': len(cases), 'distinct_nontrivial': len(seen), 'compared': compared,
            'mismatches': mismatches, 'violations': violations, 'known_hits': known_hits,
            'known_lines': sorted(set(known_lines)), 'histogram': hist, 'samples': samples or [{'case': strip(cases[-1])}] if cases else []}


def strip(case):
    return {k: v for k, v in case.items() if not k.startswith('__')} if isinstance(case, dict) else case


def replay(mod, prop, path):
    data = json.load(open(path))
    case = data.get('case')
    if case is None:
        print('replay file names broken obligations, not an input:', json.dumps(data.get('broken_obligations')))
        return 1
    o = _impl_worker((mod.__name__, case))
    fails = [{'key': 'harness-crash', 'detail': o['__crash__']}] if '__crash__' in o else list(mod.oracle(case, o))
    print(json.dumps({'case': case, 'observation': o, 'failures': fails}, indent=1, default=str))
    if fails:
        print('VIOLATION property=%s replay=%s' % (prop, path))
        return 1
    print('replay passes: the implementation satisfies the property on this input')
    return 0


if __name__ == '__main__':
    try:
        sys.exit(main())
    except common.Infra as e:
        print('INFRASTRUCTURE FAILURE (not a violation): %s' % e, file=sys.stderr)
        sys.exit(2)
