import Cellml.C06.Sem2

/-! C06: the statement of soundness of one `convert_variable` call, and the cases OUTPUT and INPUT of a variable that
    is neither a state variable nor the free variable. -/

namespace Model.CV
open Model

variable {K : Type} [Field K]

/-- the variable standing for `x` after the conversion of `v` into `nv` as an input -/
def moved (v nv x : Nat) : Nat := if x = v then nv else x

/-- the factor by which the values of `x` are scaled when `v` was converted with factor `c` -/
def factorOf (c : K) (v x : Nat) : K := if x = v then c else 1

/-- Forward half: every point solution `σ` of `s` extends to a point solution `σ⁺` of `s'` that agrees with `σ` on
    everything built from the pre-existing variables, gives the new variable `cf ·` the value of the original, gives
    every `…_orig_deriv` variable the value of the derivative it replaces, and — for an INPUT conversion — gives the
    derivative that now stands for `d x / d t` the original value rescaled by the state and time factors. -/
def FwdOK (I : Interp K) (s s' : CState) (v nv : Nat) (cf : Rat) (rep : Rep) (dir : Dir) : Prop :=
  ∀ σ : Val K, Sat I σ s → ∃ σ' : Val K, Sat I σ' s' ∧ Agree s.vars.length σ σ' ∧
    σ'.v nv = I.lit cf * σ.v v ∧
    (∀ p ∈ rep, σ'.v p.2 = σ.d p.1.1 p.1.2) ∧
    (dir = .input → ∀ e ∈ s.equations, ∀ x t, e.lhs = .deriv x t →
      σ'.d (moved v nv x) (moved v nv t) = factorOf (I.lit cf) v x * σ.d x t / factorOf (I.lit cf) v t)

/-- Backward half: every point solution `σ'` of `s'` restricts to a point solution of `s` (same values of all
    variables; the derivative atoms that were replaced are read from the `…_orig_deriv` variables), with the same
    relations between new and old values. -/
def BwdOK (I : Interp K) (s s' : CState) (v nv : Nat) (cf : Rat) (rep : Rep) (dir : Dir) : Prop :=
  ∀ σ' : Val K, Sat I σ' s' → Sat I (pull rep σ') s ∧
    σ'.v nv = I.lit cf * σ'.v v ∧
    (dir = .input → ∀ e ∈ s.equations, ∀ x t, e.lhs = .deriv x t →
      σ'.d (moved v nv x) (moved v nv t) =
        factorOf (I.lit cf) v x * (pull rep σ').d x t / factorOf (I.lit cf) v t)

/-- what is shown of one call -/
structure CallOK (I : Interp K) (s : CState) (v : Nat) (cf : Rat) (dir : Dir) (r : CState × Nat × Rep) : Prop where
  ret : r.2.1 = s.vars.length
  wf : WF r.1
  grows : s.vars.length < r.1.vars.length
  fwd : FwdOK I s r.1 v r.2.1 cf r.2.2 dir
  bwd : BwdOK I s r.1 v r.2.1 cf r.2.2 dir

theorem pull_nil (τ : Val K) : pull [] τ = τ := by
  cases τ; rfl

-- ------------------------------------------------------------------------------------------------ lhs-only properties
theorem oneFree_of_lhs {E E' : List CEqn} (h : OneFree E)
    (hl : ∀ e' ∈ E', (∃ e ∈ E, e'.lhs = e.lhs) ∨ ∃ a, e'.lhs = .var a) : OneFree E' := by
  intro e₁ h₁ e₂ h₂ x₁ t₁ x₂ t₂ hl₁ hl₂
  rcases hl e₁ h₁ with ⟨b₁, hb₁, he₁⟩ | ⟨a, ha⟩
  · rcases hl e₂ h₂ with ⟨b₂, hb₂, he₂⟩ | ⟨a, ha⟩
    · exact h b₁ hb₁ b₂ hb₂ x₁ t₁ x₂ t₂ (he₁ ▸ hl₁) (he₂ ▸ hl₂)
    · rw [ha] at hl₂; cases hl₂
  · rw [ha] at hl₁; cases hl₁

theorem noSelf_of_lhs {E E' : List CEqn} (h : NoSelf E)
    (hl : ∀ e' ∈ E', (∃ e ∈ E, e'.lhs = e.lhs) ∨ ∃ a, e'.lhs = .var a) : NoSelf E' := by
  intro e₁ h₁ x t hl₁
  rcases hl e₁ h₁ with ⟨b₁, hb₁, he₁⟩ | ⟨a, ha⟩
  · exact h b₁ hb₁ x t (he₁ ▸ hl₁)
  · rw [ha] at hl₁; cases hl₁

/-- the left-hand sides after `_convert_variable_instance` -/
theorem instEqs_lhs (s : CState) (v : Nat) (cfq : X) (dir : Dir) :
    ∀ e' ∈ instEqs s v cfq dir, (e' ∈ s.equations) ∨ e'.lhs = .var s.vars.length ∨ (dir = .input ∧ e'.lhs = .var v) := by
  intro e' he'
  cases dir with
  | output =>
    simp only [instEqs, List.mem_append, List.mem_cons, List.not_mem_nil, or_false] at he'
    rcases he' with h | h
    · exact Or.inl h
    · exact Or.inr (Or.inl (by rw [h]))
  | input =>
    simp only [instEqs] at he'
    cases hlk : s.varDef.lookup v with
    | none =>
      rw [hlk] at he'
      simp only [List.mem_append, List.mem_cons, List.not_mem_nil, or_false] at he'
      rcases he' with h | h
      · exact Or.inl h
      · exact Or.inr (Or.inr ⟨rfl, by rw [h]⟩)
    | some oe =>
      rw [hlk] at he'
      simp only [List.mem_append, List.mem_cons, List.not_mem_nil, or_false] at he'
      rcases he' with h | h | h
      · exact Or.inl (List.mem_of_mem_erase h)
      · exact Or.inr (Or.inl (by rw [h]))
      · exact Or.inr (Or.inr ⟨rfl, by rw [h]⟩)

theorem instEqs_lhs' (s : CState) (v : Nat) (cfq : X) (dir : Dir) :
    ∀ e' ∈ instEqs s v cfq dir, (∃ e ∈ s.equations, e'.lhs = e.lhs) ∨ ∃ a, e'.lhs = .var a := by
  intro e' he'
  rcases instEqs_lhs s v cfq dir e' he' with h | h | ⟨_, h⟩
  · exact Or.inl ⟨e', h, rfl⟩
  · exact Or.inr ⟨_, h⟩
  · exact Or.inr ⟨_, h⟩

/-- `Cross` after `_convert_variable_instance`, when `v` has no ODE or the direction is OUTPUT -/
theorem cross_instEqs {s : CState} (h : Inv0 s) (hc : Cross s.equations) (v : Nat) (cfq : X) (dir : Dir)
    (hno : dir = .input → ∀ e ∈ s.equations, ∀ x t, e.lhs = .deriv x t → x ≠ v) :
    Cross (instEqs s v cfq dir) := by
  intro e₁ h₁ e₂ h₂ a x t ha hx hax
  subst hax
  have h2 : e₂ ∈ s.equations := by
    rcases instEqs_lhs s v cfq dir e₂ h₂ with h | h | ⟨_, h⟩
    · exact h
    · rw [h] at hx; cases hx
    · rw [h] at hx; cases hx
  rcases instEqs_lhs s v cfq dir e₁ h₁ with hq | hq | ⟨hd, hq⟩
  · exact hc e₁ hq e₂ h2 a a t ha hx rfl
  · rw [hq] at ha; cases ha
    have := h.defKey_lt h2
    rw [defKey_deriv hx] at this; omega
  · rw [hq] at ha; cases ha
    exact hno hd e₂ h2 v t hx rfl

theorem moved_ne {v nv x : Nat} (h : x ≠ v) : moved v nv x = x := by simp [moved, h]
theorem moved_eq (v nv : Nat) : moved v nv v = nv := by simp [moved]
theorem factorOf_ne {c : K} {v x : Nat} (h : x ≠ v) : factorOf c v x = 1 := by simp [factorOf, h]
theorem factorOf_eq (c : K) (v : Nat) : factorOf c v v = c := by simp [factorOf]

/-- OUTPUT, and INPUT of a variable that is neither a state variable nor the free variable: the call is
    `_convert_variable_instance` -/
theorem case_simple (I : Interp K) {s : CState} (hwf : WF s) (v : Nat) (hv : v < s.vars.length) (u : U) (cf : Rat)
    (hcf : I.lit cf ≠ 0) (dir : Dir) (move : Bool)
    (hr : convertVariable s v u cf dir move =
      ((convertInstance s v cf u dir move).1, (convertInstance s v cf u dir move).2, []))
    (hno : dir = .input → ∀ e ∈ s.equations, ∀ x t, e.lhs = .deriv x t → x ≠ v ∧ t ≠ v) :
    CallOK I s v cf dir (convertVariable s v u cf dir move) := by
  obtain ⟨c1, c2, c3, c4⟩ := convertInstance_spec hwf.inv v hv cf u dir move
  rw [hr]
  refine { ret := c1, wf := ⟨c4, ?_, ?_, ?_⟩, grows := by simp only [c3]; omega, fwd := ?_, bwd := ?_ }
  · simp only [c2]
    exact cross_instEqs hwf.inv hwf.cross v _ dir (fun hd e he x t hl => (hno hd e he x t hl).1)
  · simp only [c2]; exact oneFree_of_lhs hwf.oneFree (instEqs_lhs' s v _ dir)
  · simp only [c2]; exact noSelf_of_lhs hwf.noSelf (instEqs_lhs' s v _ dir)
  · intro σ hσ
    refine ⟨σ.setV s.vars.length (I.lit cf * σ.v v), ?_, agree_setV _ _ _ _ (Nat.le_refl _), ?_, ?_, ?_⟩
    · show SatL I _ (convertInstance s v cf u dir move).1.equations
      rw [c2]; exact instEqs_fwd I hwf.inv v hv cf _ hcf dir σ hσ
    · simp only [c1, setV_self]
    · intro p hp; cases hp
    · intro hd e he x t hl
      obtain ⟨hx, ht⟩ := hno hd e he x t hl
      rw [moved_ne hx, moved_ne ht, factorOf_ne hx, factorOf_ne ht]
      simp [Val.setV]
  · intro σ' hσ'
    have hσ'' : SatL I σ' (instEqs s v (cfQ s v u cf) dir) := by rw [← c2]; exact hσ'
    obtain ⟨b1, b2⟩ := instEqs_bwd I hwf.inv v cf _ hcf dir σ' hσ''
    refine ⟨by rw [pull_nil]; exact b1, by simp only [c1]; exact b2, ?_⟩
    intro hd e he x t hl
    obtain ⟨hx, ht⟩ := hno hd e he x t hl
    rw [moved_ne hx, moved_ne ht, factorOf_ne hx, factorOf_ne ht, pull_nil]
    simp

/-- the free variable is the bound variable of every ODE -/
theorem getFree_of_ode {s : CState} (h : Inv0 s) (hf : OneFree s.equations) {e : CEqn} (he : e ∈ s.equations)
    {x t : Nat} (hl : e.lhs = .deriv x t) : getFree s = some t := by
  have hmem : (x, e) ∈ s.odeDef := (h.od x e).mpr ⟨he, t, hl⟩
  unfold getFree
  cases hod : s.odeDef with
  | nil => rw [hod] at hmem; cases hmem
  | cons p rest =>
    obtain ⟨k, e0⟩ := p
    have h0 : (k, e0) ∈ s.odeDef := by rw [hod]; exact List.mem_cons_self ..
    obtain ⟨he0, t0, hl0⟩ := (h.od k e0).mp h0
    simp only [hl0]
    rw [hf e0 he0 e he k t0 x t hl0 hl]

theorem getFree_some {s : CState} (h : Inv0 s) {t : Nat} (hg : getFree s = some t) :
    ∃ e ∈ s.equations, ∃ x, e.lhs = .deriv x t := by
  unfold getFree at hg
  cases hod : s.odeDef with
  | nil => rw [hod] at hg; cases hg
  | cons p rest =>
    obtain ⟨k, e0⟩ := p
    have h0 : (k, e0) ∈ s.odeDef := by rw [hod]; exact List.mem_cons_self ..
    obtain ⟨he0, t0, hl0⟩ := (h.od k e0).mp h0
    rw [hod] at hg; simp only [hl0] at hg
    cases hg
    exact ⟨e0, he0, k, hl0⟩

theorem case_output (I : Interp K) {s : CState} (hwf : WF s) (v : Nat) (hv : v < s.vars.length) (u : U) (cf : Rat)
    (hcf1 : cf ≠ 1) (hcf : I.lit cf ≠ 0) (move : Bool) :
    CallOK I s v cf .output (convertVariable s v u cf .output move) :=
  case_simple I hwf v hv u cf hcf .output move (convertVariable_output s v u cf move hcf1) (fun h => by cases h)

theorem case_input_plain (I : Interp K) {s : CState} (hwf : WF s) (v : Nat) (hv : v < s.vars.length) (u : U)
    (cf : Rat) (hcf1 : cf ≠ 1) (hcf : I.lit cf ≠ 0) (move : Bool) (hst : hasKey v s.odeDef = false)
    (hfr : getFree s ≠ some v) : CallOK I s v cf .input (convertVariable s v u cf .input move) := by
  apply case_simple I hwf v hv u cf hcf .input move (convertVariable_input_plain s v u cf move hcf1 hst hfr)
  intro _ e he x t hl
  constructor
  · intro hx; subst hx
    have := (hwf.inv.hasKey_odeDef x).mpr ⟨e, he, t, hl⟩
    rw [hst] at this; cases this
  · intro ht; subst ht
    exact hfr (getFree_of_ode hwf.inv hwf.oneFree he hl)

end Model.CV
