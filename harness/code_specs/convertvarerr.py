"""Code-translator spec: Model.convert_variable and its helpers (cellmlmanip/model.py) once more, this time in
`Except Raised` - an exception carries its CLASS and the MODEL STATE python leaves behind when it escapes (the state at
the raise). Same leaves as harness/code_specs/convertvar.py (the hand model's state `Model.CV.CState` is threaded as the
explicit variable `st`); the calls that can raise are bound to the stopping hand model `Model.CVE.*`
(lean/Cellml/Model/ConvertVarErr.lean) instead of the flag wrappers, and `raise` / `assert` of the translated functions
carry the threaded state (harness/translate_ext/cverr.py). View: lean/Cellml/Tie/ConvertVarEView.lean; ties:
lean/Cellml/Tie/ConvertVarE*.lean."""

F = 'cellmlmanip/model.py'

# ---- leaves shared by all functions -------------------------------------------------------------------------------
PATTERNS = [
    # attributes of a Variable object (a Variable is its identity number; its fields live in `st.vars`)
    ('__A.name', '(nameOfV st {A})'),
    ('__A.units', '(unitOfV st {A})'),
    ('__A.initial_value', '(initOfV st {A})'),
    ('__A._cmeta_id', '(cmetaOfV st {A})'),
    # other methods of Model / the units module (each has its own hand model)
    ('self.get_unique_name(__A)', '(freshName st {A})'),
    ('self.units.evaluate_units(__A)', '(lhsUnit st {A})'),
    # the dicts of the Model
    ('self._name_to_variable', '(names st)'),
    ('self._var_definition_map.get(__A)', '(st.varDef.lookup {A})'),
    ('self._ode_definition_map[__A]', '← odeLookupE st {A}'),
    ('self._ode_definition_map', '(odeKeys st)'),
    # sympy
    ('sympy.Eq(__A, __B)', '(mkEq {A} {B})'),
    ('sympy.Derivative(__A, __B)', '(CLhs.deriv {A} {B})'),
    ('__A.lhs.args[0]', '← derivArg0E st ({A}).lhs'),
    ('__A.lhs.args[1]', '← derivArg1E st ({A}).lhs'),
    ('__A.args[1]', '(eqArg1 {A})'),
    ('__A / __B', '({A} / {B})'),                 # sympy / pint division: the HDiv instances of the view
    ('float(__A)', '(pyFloat {A})'),
    ('{__A: __B}', '[(derivKey {A}, {B})]'),      # a dict with one Derivative key
    # the enum
    ('DataDirectionFlow.INPUT', 'Dir.input'),
    ('DataDirectionFlow.OUTPUT', 'Dir.output'),
]

STMT_PATTERNS = [
    ('return __A', 'return (st, {A})'),          # the threaded state is returned with the value
    ('__X = self.add_variable(name=__A, units=__B, initial_value=__C)',
     'let (st1__, {X}) ← CVE.addVariable st {A} {B} {C}\nst := st1__'),
    ('__X = self.add_variable(name=__A, units=__B)',             # initial_value defaults to None
     'let (st1__, {X}) ← CVE.addVariable st {A} {B} none\nst := st1__'),
    ('self.add_equation(__A, check_duplicates=__B)', 'st ← CVE.addEq st {A} {B!c}'),
    ('self.add_equation(__A)', 'st ← CVE.addEq st {A} true'),      # check_duplicates defaults to True
    ('self.remove_equation(__A)', 'st ← removeEqE st {A}'),
    ('self.transfer_cmeta_id(__A, __B)', 'st ← CVE.transferCmeta st {A} {B}'),
    ('__A.initial_value = __B', 'st := setInitialValue st {A} {B}'),
    # calls of the other translated functions: the GENERATED definitions
    ('__X = self._remove_ode_and_assign_rhs_to_new_variable(__A, __B)',
     'let (st1__, {X}) ← removeOdeAndAssignRhsToNewVariable st {A} {B}\nst := st1__'),
    ('__X = self._convert_variable_instance(__A, __B, __C, __D, __E)',
     'let (st1__, {X}) ← convertVariableInstance st {A} (CfVal.toX {B}) {C} {D} {E}\nst := st1__'),
    ('derivative_replacements.update(self._convert_state_variable_deriv(__A, __B, __C))',
     'let (st1__, upd__) ← convertStateVariableDeriv st {A} {B} (CfVal.toX {C})\nst := st1__\n'
     'derivative_replacements := dictUpdate derivative_replacements upd__'),
    ('derivative_replacements.update(self._convert_free_variable_deriv(__A, __B, __C))',
     'let (st1__, upd__) ← convertFreeVariableDeriv st {A} {B} (CfVal.toX {C})\nst := st1__\n'
     'derivative_replacements := dictUpdate derivative_replacements upd__'),
    ('self._replace_references_to_derivatives(__A)', 'st ← replaceReferencesToDerivatives st {A}'),
]

# `raise` / `assert` of the translated functions carry the threaded state (harness/translate_ext/cverr.py)
EXT = {'fn_class': 'cverr:StateRaiseFn', 'raise_state': 'st'}

GROUP = {
    'name': 'ConvertVarE',
    'imports': ['Cellml.Tie.ConvertVarEView'],
    'header': 'open Model Model.CV Cellml.Tie.CV Cellml.Tie.CVE\nopen Model.CVE (Raised)',
    'patterns': PATTERNS,
    'stmt_patterns': STMT_PATTERNS,
    'functions': [
        # `get_unique_name` never raises: it stays in the group ConvertVar (convertvar.py, `getUniqueName_tie`)
        {'file': F, 'func': 'Model._remove_ode_and_assign_rhs_to_new_variable',
         **EXT, 'lean_name': 'removeOdeAndAssignRhsToNewVariable', 'state': ['st'],
         'signature': '(st : CState) (original_ode : CEqn) (original_state_variable : Nat) : '
                      'Except Raised (CState × Nat)'},
        {'file': F, 'func': 'Model._convert_free_variable_deriv', **EXT, 'lean_name': 'convertFreeVariableDeriv',
         'state': ['st'],
         'signature': '(st : CState) (original_ode : CEqn) (new_time : Nat) (cf : X) : Except Raised (CState × Rep)'},
        {'file': F, 'func': 'Model._convert_state_variable_deriv', **EXT, 'lean_name': 'convertStateVariableDeriv',
         'state': ['st'],
         'signature': '(st : CState) (original_variable new_variable : Nat) (cf : X) : Except Raised (CState × Rep)'},
        {'file': F, 'func': 'Model._replace_references_to_derivatives', **EXT, 'lean_name': 'replaceReferencesToDerivatives',
         'state': ['st'],
         'signature': '(st : CState) (derivative_replacement_map : Rep) : Except Raised CState',
         'returns': 'st',
         'patterns': [('set(__A.keys())', '(dictKeys {A})'),
                      ('self.equations.copy()', '(st.equations)'),      # a copy: Lean lists are values
                      ('__A.isdisjoint(__B)', '(isDisjoint {A} {B})'),
                      ('__A.atoms(sympy.Derivative)', '(X.derivs {A})'),
                      ('__A.xreplace(__B)', '(substEq {B} {A})')]},
        {'file': F, 'func': 'Model._convert_variable_instance', **EXT, 'lean_name': 'convertVariableInstance',
         'state': ['st'],
         'signature': '(st : CState) (original_variable : Nat) (cf : X) (units : U) (direction : Dir) '
                      '(move_annotations : Bool) : Except Raised (CState × Nat)'},
        {'file': F, 'func': 'Model.convert_variable', **EXT, 'lean_name': 'convertVariable', 'state': ['st'],
         'mutable': ['derivative_replacements'],
         'skip_calls': ['logger.', 'self._invalidate_cache'],    # the cached graphs are not part of CState (C08)
         'signature': '(self : CVViewE) (st : CState) (original_variable : Nat) (units : U) (direction : Dir) '
                      '(move_annotations : Bool) : Except Raised (CState × Nat)',
         'patterns': [('self.units.get_conversion_factor(from_unit=__A, to_unit=__B)', '← self.getCfE st {A} {B}'),
                      ('isinstance(__A, numbers.Number)', '(CfVal.isNumber {A})'),
                      ('self.create_quantity(__A, __B)', '(createQuantity {A} {B})'),
                      ('self.get_state_variables()', '(stateVariables st)'),
                      ('self.get_free_variable()', '← getFreeVariableE st'),
                      ('{}', '([] : Rep)'),
                      ('sorted(__A, key=__K)', '(pySorted {K} {A})'),
                      ('self._ode_definition_map.items()', '(odeItems st)'),
                      ('__A.args[0].args[1].args[0]', '← odeBoundVarE st {A}'),   # before `__A[0]`
                      ('__A[0]', '({A}).1'),                                  # first component of a dict item
                      ('__A.order_added', '(orderAdded st {A})')]},
    ],
}
