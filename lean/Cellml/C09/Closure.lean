import Cellml.C09.Lemmas

/-! Transitive closure, paths of bounded length, and `ancestors` = "there is a path" in a graph that sorts. -/

namespace C09

/-- transitive closure (at least one step) of a relation on nodes -/
inductive TC (R : Node → Node → Prop) : Node → Node → Prop
  | base {u v : Node} : R u v → TC R u v
  | tail {u w v : Node} : TC R u w → R w v → TC R u v

theorem TC.mono {R R' : Node → Node → Prop} (h : ∀ u v, R u v → R' u v) {u v : Node} : TC R u v → TC R' u v := by
  intro t
  induction t with
  | base r => exact .base (h _ _ r)
  | tail _ r ih => exact .tail ih (h _ _ r)

theorem TC.head {R : Node → Node → Prop} {u w v : Node} (r : R u w) (t : TC R w v) : TC R u v := by
  induction t with
  | base r' => exact .tail (.base r) r'
  | tail _ r' ih => exact .tail ih r'

theorem TC.trans {R : Node → Node → Prop} {u w v : Node} (t₁ : TC R u w) (t₂ : TC R w v) : TC R u v := by
  induction t₂ with
  | base r => exact .tail t₁ r
  | tail _ r ih => exact .tail ih r

/-- a transitive closure that respects a ranking has no loops -/
theorem TC.rank_lt {R : Node → Node → Prop} (rank : Node → Nat) (h : ∀ u v, R u v → rank u < rank v)
    {u v : Node} (t : TC R u v) : rank u < rank v := by
  induction t with
  | base r => exact h _ _ r
  | tail _ r ih => exact Nat.lt_trans ih (h _ _ r)

def Edge' (g : Graph) (u v : Node) : Prop := (u, v) ∈ g.edges

/-- a path of exactly `k` edges from `u` to `v` -/
def PathN (g : Graph) : Nat → Node → Node → Prop
  | 0, u, v => u = v
  | k + 1, u, v => ∃ w, PathN g k u w ∧ (w, v) ∈ g.edges

theorem tc_of_pathN {g : Graph} : ∀ {k : Nat} {u v : Node}, PathN g (k + 1) u v → TC (Edge' g) u v
  | 0, u, v, ⟨w, hw, he⟩ => by
      simp only [PathN] at hw; subst hw; exact .base he
  | k + 1, u, v, ⟨w, hw, he⟩ => .tail (tc_of_pathN hw) he

theorem pathN_of_tc {g : Graph} {u v : Node} (t : TC (Edge' g) u v) : ∃ k, PathN g (k + 1) u v := by
  induction t with
  | base r => exact ⟨0, _, rfl, r⟩
  | tail _ r ih =>
      obtain ⟨k, hk⟩ := ih
      exact ⟨k + 1, _, hk, r⟩

theorem mem_addNode {ns : List Node} {v x : Node} : x ∈ addNode ns v ↔ x ∈ ns ∨ x = v := by
  unfold addNode
  split
  · rename_i h
    constructor
    · exact Or.inl
    · rintro (h' | rfl)
      · exact h'
      · exact h
  · simp

theorem nodup_addNode {ns : List Node} {v : Node} (h : ns.Nodup) : (addNode ns v).Nodup := by
  unfold addNode
  split
  · exact h
  · rename_i hv
    rw [List.nodup_append]
    refine ⟨h, by simp, ?_⟩
    intro a ha b hb
    simp at hb; subst hb
    intro hab; subst hab; exact hv ha

theorem mem_insertAll : ∀ {ts s : List Node} {x : Node}, x ∈ insertAll s ts ↔ x ∈ s ∨ x ∈ ts
  | [], s, x => by simp [insertAll]
  | t :: ts, s, x => by
      simp only [insertAll]
      rw [mem_insertAll, mem_addNode]
      simp only [List.mem_cons]
      constructor
      · rintro ((h | h) | h)
        · exact Or.inl h
        · exact Or.inr (Or.inl h)
        · exact Or.inr (Or.inr h)
      · rintro (h | h | h)
        · exact Or.inl (Or.inl h)
        · exact Or.inl (Or.inr h)
        · exact Or.inr h

theorem mem_closure {g : Graph} : ∀ {k : Nat} {s : List Node} {u : Node},
    u ∈ closure g k s ↔ ∃ j, j ≤ k ∧ ∃ t ∈ s, PathN g j u t
  | 0, s, u => by
      simp only [closure]
      constructor
      · intro h; exact ⟨0, Nat.le_refl _, u, h, rfl⟩
      · rintro ⟨j, hj, t, ht, hp⟩
        have : j = 0 := by omega
        subst this
        simp only [PathN] at hp; subst hp; exact ht
  | k + 1, s, u => by
      simp only [closure]
      rw [mem_closure]
      constructor
      · rintro ⟨j, hj, t, ht, hp⟩
        rcases mem_insertAll.mp ht with ht | ht
        · exact ⟨j, by omega, t, ht, hp⟩
        · obtain ⟨t', ht', htp⟩ := List.mem_flatMap.mp ht
          exact ⟨j + 1, by omega, t', ht', t, hp, mem_preds.mp htp⟩
      · rintro ⟨j, hj, t, ht, hp⟩
        cases j with
        | zero => exact ⟨0, by omega, t, mem_insertAll.mpr (Or.inl ht), hp⟩
        | succ j =>
            obtain ⟨w, hw, he⟩ := hp
            refine ⟨j, by omega, w, mem_insertAll.mpr (Or.inr ?_), hw⟩
            exact List.mem_flatMap.mpr ⟨t, ht, mem_preds.mpr he⟩

/-- in a graph that sorts, a path into `v` is at most as long as `v`'s position in the output -/
theorem pathN_idx {key : Node → String} {g : Graph} {l : List Node} (hwf : WF g) (h : lexTopo key g = .ok l) :
    ∀ {k : Nat} {u v : Node}, PathN g k u v → l.idxOf u + k ≤ l.idxOf v
  | 0, u, v, hp => by simp only [PathN] at hp; subst hp; omega
  | k + 1, u, v, ⟨w, hw, he⟩ => by
      have h1 := pathN_idx hwf h hw
      have h2 := acyclic_of_lexTopo hwf h w v he
      omega

/-- `nx.ancestors(g, v)`: exactly the nodes with a path to `v` — provided the graph sorts (is acyclic) -/
theorem mem_ancestors {key : Node → String} {g : Graph} {l : List Node} (hwf : WF g) (h : lexTopo key g = .ok l)
    {u v : Node} : u ∈ ancestors g v ↔ TC (Edge' g) u v := by
  unfold ancestors
  rw [mem_closure]
  constructor
  · rintro ⟨j, _, t, ht, hp⟩
    exact tc_of_pathN ⟨t, hp, mem_preds.mp ht⟩
  · intro t
    obtain ⟨k, hk⟩ := pathN_of_tc t
    have hidx := pathN_idx hwf h hk
    obtain ⟨w, hw, he⟩ := hk
    have hv : v ∈ l := (lexTopo_ok_perm h).mem_iff.mpr (hwf.tgt w v he)
    have hlt : l.idxOf v < l.length := List.idxOf_lt_length_iff.mpr hv
    have hlen := (lexTopo_ok h).2
    exact ⟨k, by omega, w, mem_preds.mpr he, hw⟩

end C09
