import Cellml.C11.Printer

/-! C11 — lemmas about the layout tree: the joining operations keep `PyOK`. -/
namespace C11
set_option linter.unusedSimpArgs false

@[simp] theorem level_atom (s) : level (.atom s) = 100 := rfl
@[simp] theorem level_call (f a) : level (.call f a) = 100 := rfl
@[simp] theorem level_paren (d) : level (.paren d) = 100 := rfl
@[simp] theorem level_neg (d) : level (.neg d) = 55 := rfl
@[simp] theorem level_pow (a b) : level (.bin .pow a b) = 60 := rfl
@[simp] theorem level_mul (a b) : level (.bin .mul a b) = 50 := rfl
@[simp] theorem level_div (a b) : level (.bin .div a b) = 50 := rfl
@[simp] theorem level_add (a b) : level (.bin .add a b) = 40 := rfl
@[simp] theorem level_sub (a b) : level (.bin .sub a b) = 40 := rfl
@[simp] theorem level_cmp (r a b) : level (.cmp r a b) = 35 := rfl
@[simp] theorem level_and (a b) : level (.and a b) = 30 := rfl
@[simp] theorem level_or (a b) : level (.or a b) = 20 := rfl
@[simp] theorem level_ite (a b c) : level (.ite a b c) = 10 := rfl
@[simp] theorem level_nil : level .nil = 0 := rfl
@[simp] theorem level_cons (a b) : level (.cons a b) = 0 := rfl

@[simp] theorem ok_atom (s) : PyOK (.atom s) = true := rfl
@[simp] theorem ok_nil : PyOK .nil = true := rfl
@[simp] theorem ok_call (f a) : PyOK (.call f a) = PyOK a := rfl
@[simp] theorem ok_neg (d) : PyOK (.neg d) = (PyOK d && decide (55 ≤ level d)) := rfl
@[simp] theorem ok_pow (a b) : PyOK (.bin .pow a b) =
    (PyOK a && PyOK b && decide (100 ≤ level a) && decide (55 ≤ level b)) := rfl
@[simp] theorem ok_mul (a b) : PyOK (.bin .mul a b) =
    (PyOK a && PyOK b && decide (50 ≤ level a) && decide (55 ≤ level b)) := rfl
@[simp] theorem ok_div (a b) : PyOK (.bin .div a b) =
    (PyOK a && PyOK b && decide (50 ≤ level a) && decide (55 ≤ level b)) := rfl
@[simp] theorem ok_add (a b) : PyOK (.bin .add a b) =
    (PyOK a && PyOK b && decide (40 ≤ level a) && decide (50 ≤ level b)) := rfl
@[simp] theorem ok_sub (a b) : PyOK (.bin .sub a b) =
    (PyOK a && PyOK b && decide (40 ≤ level a) && decide (50 ≤ level b)) := rfl
@[simp] theorem ok_cmp (r a b) : PyOK (.cmp r a b) =
    (PyOK a && PyOK b && decide (40 ≤ level a) && decide (40 ≤ level b)) := rfl
@[simp] theorem ok_and (a b) : PyOK (.and a b) =
    (PyOK a && PyOK b && decide (30 ≤ level a) && decide (35 ≤ level b)) := rfl
@[simp] theorem ok_or (a b) : PyOK (.or a b) =
    (PyOK a && PyOK b && decide (20 ≤ level a) && decide (30 ≤ level b)) := rfl
@[simp] theorem ok_ite (t c e) : PyOK (.ite t c e) =
    (PyOK t && PyOK c && PyOK e && decide (20 ≤ level t) && decide (20 ≤ level c) && decide (10 ≤ level e)) := rfl
@[simp] theorem ok_paren (d) : PyOK (.paren d) = (PyOK d && decide (10 ≤ level d)) := rfl
@[simp] theorem ok_cons (h t) : PyOK (.cons h t) = (PyOK h && decide (10 ≤ level h) && PyOK t) := rfl

theorem level_le_100 (d : Doc) : level d ≤ 100 := by
  cases d <;> try simp
  rename_i op _ _; cases op <;> simp

/-- peeling the leading minus keeps the tree well grouped, at any level the tree had (up to the unary level) -/
theorem peelLeft_ok (d : Doc) : ∀ L, PyOK d = true → startsMinus d = true → L ≤ level d → L ≤ 55 →
    PyOK (peelLeft d) = true ∧ L ≤ level (peelLeft d) := by
  induction d with
  | atom s => intro L _ h; simp [startsMinus] at h
  | call f a _ => intro L _ h; simp [startsMinus] at h
  | paren d _ => intro L _ h; simp [startsMinus] at h
  | nil => intro L _ h; simp [startsMinus] at h
  | neg d _ =>
      intro L hp _ hl hL
      simp only [ok_neg, Bool.and_eq_true, decide_eq_true_eq] at hp
      simp only [peelLeft]; exact ⟨hp.1, by omega⟩
  | bin op a b iha _ =>
      intro L hp hs hl hL
      simp only [startsMinus] at hs
      cases op <;> simp only [ok_add, ok_sub, ok_mul, ok_div, ok_pow, level_add, level_sub, level_mul, level_div, level_pow,
          Bool.and_eq_true, decide_eq_true_eq] at hp hl ⊢ <;>
        simp only [peelLeft, ok_add, ok_sub, ok_mul, ok_div, ok_pow, level_add, level_sub, level_mul, level_div,
          level_pow, Bool.and_eq_true, decide_eq_true_eq]
      · have := iha 40 hp.1.1.1 hs hp.1.2 (by omega); exact ⟨⟨⟨⟨this.1, hp.1.1.2⟩, this.2⟩, hp.2⟩, hl⟩
      · have := iha 40 hp.1.1.1 hs hp.1.2 (by omega); exact ⟨⟨⟨⟨this.1, hp.1.1.2⟩, this.2⟩, hp.2⟩, hl⟩
      · have := iha 50 hp.1.1.1 hs hp.1.2 (by omega); exact ⟨⟨⟨⟨this.1, hp.1.1.2⟩, this.2⟩, hp.2⟩, hl⟩
      · have := iha 50 hp.1.1.1 hs hp.1.2 (by omega); exact ⟨⟨⟨⟨this.1, hp.1.1.2⟩, this.2⟩, hp.2⟩, hl⟩
      · -- the left operand of `**` is a primary, which never starts with a minus
        exfalso
        have h100 := hp.1.2
        cases a <;> simp [startsMinus] at hs h100
        rename_i op _ _; cases op <;> simp at h100
  | cmp r a b iha _ =>
      intro L hp hs hl hL
      simp only [startsMinus] at hs
      simp only [ok_cmp, ok_and, ok_or, ok_ite, level_cmp, level_and, level_or, level_ite, Bool.and_eq_true,
        decide_eq_true_eq] at hp hl
      simp only [peelLeft, ok_cmp, ok_and, ok_or, ok_ite, ok_cons, level_cmp, level_and, level_or, level_ite,
        level_cons, Bool.and_eq_true, decide_eq_true_eq]
      have := iha 40 hp.1.1.1 hs hp.1.2 (by omega); exact ⟨⟨⟨⟨this.1, hp.1.1.2⟩, this.2⟩, hp.2⟩, hl⟩
  | and a b iha _ =>
      intro L hp hs hl hL
      simp only [startsMinus] at hs
      simp only [ok_cmp, ok_and, ok_or, ok_ite, level_cmp, level_and, level_or, level_ite, Bool.and_eq_true,
        decide_eq_true_eq] at hp hl
      simp only [peelLeft, ok_cmp, ok_and, ok_or, ok_ite, ok_cons, level_cmp, level_and, level_or, level_ite,
        level_cons, Bool.and_eq_true, decide_eq_true_eq]
      have := iha 30 hp.1.1.1 hs hp.1.2 (by omega); exact ⟨⟨⟨⟨this.1, hp.1.1.2⟩, this.2⟩, hp.2⟩, hl⟩
  | or a b iha _ =>
      intro L hp hs hl hL
      simp only [startsMinus] at hs
      simp only [ok_cmp, ok_and, ok_or, ok_ite, level_cmp, level_and, level_or, level_ite, Bool.and_eq_true,
        decide_eq_true_eq] at hp hl
      simp only [peelLeft, ok_cmp, ok_and, ok_or, ok_ite, ok_cons, level_cmp, level_and, level_or, level_ite,
        level_cons, Bool.and_eq_true, decide_eq_true_eq]
      have := iha 20 hp.1.1.1 hs hp.1.2 (by omega); exact ⟨⟨⟨⟨this.1, hp.1.1.2⟩, this.2⟩, hp.2⟩, hl⟩
  | ite t c e iht _ _ =>
      intro L hp hs hl hL
      simp only [startsMinus] at hs
      simp only [ok_cmp, ok_and, ok_or, ok_ite, level_cmp, level_and, level_or, level_ite, Bool.and_eq_true,
        decide_eq_true_eq] at hp hl
      simp only [peelLeft, ok_cmp, ok_and, ok_or, ok_ite, ok_cons, level_cmp, level_and, level_or, level_ite,
        level_cons, Bool.and_eq_true, decide_eq_true_eq]
      have := iht 20 hp.1.1.1.1.1 hs hp.1.1.2 (by omega)
      exact ⟨⟨⟨⟨⟨⟨this.1, hp.1.1.1.1.2⟩, hp.1.1.1.2⟩, this.2⟩, hp.1.2⟩, hp.2⟩, hl⟩
  | cons h t ihh _ =>
      intro L hp hs hl hL
      simp only [level_cons] at hl
      simp only [startsMinus] at hs
      simp only [ok_cons, Bool.and_eq_true, decide_eq_true_eq] at hp
      simp only [peelLeft, ok_cmp, ok_and, ok_or, ok_ite, ok_cons, level_cmp, level_and, level_or, level_ite,
        level_cons, Bool.and_eq_true, decide_eq_true_eq]
      have := ihh 10 hp.1.1 hs hp.1.2 (by omega)
      exact ⟨⟨⟨this.1, this.2⟩, hp.2⟩, by omega⟩

theorem spliceSum_ok (acc : Doc) (m : Bool) (hacc : PyOK acc = true) (hl : 40 ≤ level acc) (d : Doc) :
    PyOK d = true → 40 ≤ level d → PyOK (spliceSum acc m d) = true ∧ level (spliceSum acc m d) = 40 := by
  induction d with
  | bin op a b iha _ =>
      intro hp hd
      cases op
      · simp only [ok_add, Bool.and_eq_true, decide_eq_true_eq] at hp
        have := iha hp.1.1.1 hp.1.2
        simp [spliceSum, this.1, this.2, hp.1.1.2, hp.2]
      · simp only [ok_sub, Bool.and_eq_true, decide_eq_true_eq] at hp
        have := iha hp.1.1.1 hp.1.2
        simp [spliceSum, this.1, this.2, hp.1.1.2, hp.2]
      all_goals
        simp only [spliceSum]
        cases m <;> simp [hacc, hl, hp]
  | _ =>
      intro hp hd
      simp only [spliceSum]
      cases m <;> simp_all <;> omega

theorem spliceProd_ok (acc : Doc) (hacc : PyOK acc = true) (hl : 50 ≤ level acc) (d : Doc) :
    PyOK d = true → 50 ≤ level d → PyOK (spliceProd acc d) = true ∧ level (spliceProd acc d) = 50 := by
  induction d with
  | bin op a b iha _ =>
      intro hp hd
      cases op
      case mul =>
        simp only [ok_mul, Bool.and_eq_true, decide_eq_true_eq] at hp
        have := iha hp.1.1.1 hp.1.2
        simp [spliceProd, this.1, this.2, hp.1.1.2, hp.2]
      case div =>
        simp only [ok_div, Bool.and_eq_true, decide_eq_true_eq] at hp
        have := iha hp.1.1.1 hp.1.2
        simp [spliceProd, this.1, this.2, hp.1.1.2, hp.2]
      all_goals
        simp only [spliceProd]
        simp_all
  | _ =>
      intro hp hd
      simp only [spliceProd]
      simp_all <;> omega

theorem foldl_spliceProd_ok (ds : List Doc) : ∀ acc, PyOK acc = true → 50 ≤ level acc →
    (∀ x ∈ ds, PyOK x = true ∧ 50 ≤ level x) →
    PyOK (ds.foldl spliceProd acc) = true ∧ 50 ≤ level (ds.foldl spliceProd acc) := by
  induction ds with
  | nil => intro acc h1 h2 _; exact ⟨h1, h2⟩
  | cons d ds ih =>
      intro acc h1 h2 hall
      have hd := hall d (by simp)
      have := spliceProd_ok acc h1 h2 d hd.1 hd.2
      simp only [List.foldl_cons]
      exact ih _ this.1 (by omega) (fun x hx => hall x (by simp [hx]))

theorem prodChain_ok (ds : List Doc) (hall : ∀ x ∈ ds, PyOK x = true ∧ 50 ≤ level x) :
    PyOK (prodChain ds) = true ∧ 50 ≤ level (prodChain ds) := by
  cases ds with
  | nil => simp [prodChain]
  | cons d ds =>
      have hd := hall d (by simp)
      exact foldl_spliceProd_ok ds d hd.1 hd.2 (fun x hx => hall x (by simp [hx]))

theorem negFirst_ok (d : Doc) : PyOK d = true → 50 ≤ level d →
    PyOK (negFirst d) = true ∧ 50 ≤ level (negFirst d) := by
  induction d with
  | bin op a b iha _ =>
      intro hp hd
      cases op
      case mul =>
        simp only [ok_mul, Bool.and_eq_true, decide_eq_true_eq] at hp
        have := iha hp.1.1.1 hp.1.2
        simp [negFirst, this.1, this.2, hp.1.1.2, hp.2]
      case div =>
        simp only [ok_div, Bool.and_eq_true, decide_eq_true_eq] at hp
        have := iha hp.1.1.1 hp.1.2
        simp [negFirst, this.1, this.2, hp.1.1.2, hp.2]
      all_goals
        simp only [negFirst]
        simp_all
  | _ =>
      intro hp hd
      simp only [negFirst]
      simp_all

theorem spliceAnd_ok (acc : Doc) (hacc : PyOK acc = true) (hl : 30 ≤ level acc) (d : Doc) :
    PyOK d = true → 30 ≤ level d → PyOK (spliceAnd acc d) = true ∧ level (spliceAnd acc d) = 30 := by
  induction d with
  | and a b iha _ =>
      intro hp hd
      simp only [ok_and, Bool.and_eq_true, decide_eq_true_eq] at hp
      have := iha hp.1.1.1 hp.1.2
      simp [spliceAnd, this.1, this.2, hp.1.1.2, hp.2]
  | bin op a b _ _ =>
      intro hp hd
      simp only [spliceAnd]
      cases op <;> simp_all
  | _ =>
      intro hp hd
      simp only [spliceAnd]
      simp_all <;> omega

theorem spliceOr_ok (acc : Doc) (hacc : PyOK acc = true) (hl : 20 ≤ level acc) (d : Doc) :
    PyOK d = true → 20 ≤ level d → PyOK (spliceOr acc d) = true ∧ level (spliceOr acc d) = 20 := by
  induction d with
  | or a b iha _ =>
      intro hp hd
      simp only [ok_or, Bool.and_eq_true, decide_eq_true_eq] at hp
      have := iha hp.1.1.1 hp.1.2
      simp [spliceOr, this.1, this.2, hp.1.1.2, hp.2]
  | bin op a b _ _ =>
      intro hp hd
      simp only [spliceOr]
      cases op <;> simp_all
  | _ =>
      intro hp hd
      simp only [spliceOr]
      simp_all <;> omega

end C11
