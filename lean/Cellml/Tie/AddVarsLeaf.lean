import Cellml.Generated.Code.AddVars

/-! # `self._add_variables(element)` as `Parser._add_components` calls it: the GENERATED `_add_variables`
    (Cellml/Generated/Code/AddVars.lean) on the `<component>` element, its lookup re-keyed by the flat names as the
    pairs the loader models use. Core Lean only. `Cellml.Tie.PAddVars.genAddVariables_leaf` (Tie/AddVars.lean) proves
    it equal to the former hand-written leaf `Cellml.Tie.addVariables` (`Load.checkVars` + `Load.entry`). -/

namespace Cellml.Tie.PAddVars
open Load Cellml.Tie

/-- the flat name held by a key of `variable_lookup_symbol` -/
def refOf : AttrVal → VRef
  | .ref r => r
  | _ => ("", "")

def genAddVariables (self : CompsView) (st : CompsState) (e : CompElem) :
    Except PyErr (List (VRef × VRef) × CompsState) :=
  (Cellml.Gen.AddVars.addVariables self (ofCompElem e) st).map
    (fun r => (r.1.map (fun p => (refOf p.1, p.2)), r.2))

end Cellml.Tie.PAddVars
