/-! Spike for C14: exact decimal → IEEE-754 binary64 (round to nearest, ties to even), on Nat only. -/

def roundDivEven (n d : Nat) : Nat :=
  let q := n / d; let r := n % d
  if 2 * r < d then q else if 2 * r > d then q + 1 else if q % 2 = 0 then q else q + 1

/-- value = num / den (den > 0, num > 0). Returns the 64-bit pattern of the nearest double (sign 0). -/
def ratToBits (num den : Nat) : Nat :=
  if num = 0 then 0 else
  -- find e with 2^e ≤ num/den < 2^(e+1):  start from bit lengths, adjust
  let e0 : Int := (Nat.log2 num : Int) - (Nat.log2 den : Int)
  -- scaled comparison: num / den ≥ 2^e ?
  let ge (e : Int) : Bool := if e ≥ 0 then num ≥ den * 2 ^ e.toNat else num * 2 ^ (-e).toNat ≥ den
  let e : Int := if ge e0 then (if ge (e0 + 1) then e0 + 1 else e0) else e0 - 1
  -- exponent of the least significant bit of a 53-bit significand, clamped for subnormals
  let emin : Int := -1074
  let lsb : Int := max (e - 52) emin
  -- significand = round(num / (den * 2^lsb))
  let sig : Nat := if lsb ≥ 0 then roundDivEven num (den * 2 ^ lsb.toNat) else roundDivEven (num * 2 ^ (-lsb).toNat) den
  -- sig may have become 2^53 (carry): then exponent goes up by one; the bit pattern arithmetic below handles it
  -- biased exponent field for normal numbers: e + 1023 where value = 1.f * 2^e, lsb = e - 52
  if sig < 2 ^ 52 then sig                                   -- subnormal (or zero)
  else
    let expField : Int := lsb + 52 + 1023                    -- for sig in [2^52, 2^53)
    let bits : Int := expField * 2 ^ 52 + ((sig : Int) - 2 ^ 52)   -- carry into exponent works by addition
    if bits ≥ 2047 * 2 ^ 52 then 2047 * 2 ^ 52 else bits.toNat      -- overflow → +inf

/-- parse `[-]digits[.digits][e[+-]digits]` into (negative, mantissa digits as Nat, decimal exponent) -/
def parseExp (rest : List Char) : Option Int :=
  match rest with
  | [] => some 0
  | c :: t =>
    if c = 'e' || c = 'E' then
      let (en, t) := match t with | '-' :: u => (true, u) | '+' :: u => (false, u) | u => (false, u)
      if t.isEmpty || !t.all Char.isDigit then none
      else let v : Int := (String.ofList t).toNat!; some (if en then -v else v)
    else none

def parseDec (s : String) : Option (Bool × Nat × Int) :=
  let cs := s.trimAscii.toString.toList
  let (neg, cs) := match cs with | '-' :: t => (true, t) | '+' :: t => (false, t) | t => (false, t)
  let intPart := cs.takeWhile Char.isDigit
  let rest := cs.dropWhile Char.isDigit
  let (fracPart, rest) := match rest with
    | '.' :: t => (t.takeWhile Char.isDigit, t.dropWhile Char.isDigit)
    | t => ([], t)
  if intPart.isEmpty && fracPart.isEmpty then none
  else match parseExp rest with
    | none => none
    | some expo =>
      let m := (String.ofList (intPart ++ fracPart)).toNat!
      some (neg, m, expo - fracPart.length)

def decToBits (s : String) : Option Nat := do
  let (neg, m, e10) ← parseDec s
  let mag := if e10 ≥ 0 then ratToBits (m * 10 ^ e10.toNat) 1 else ratToBits m (10 ^ (-e10).toNat)
  some (if neg then mag + 2 ^ 63 else mag)

def hex (n : Nat) : String := String.ofList (Nat.toDigits 16 n)

partial def loop (h : IO.FS.Stream) : IO Unit := do
  let line ← h.getLine
  if line.isEmpty then return ()
  match decToBits line with
  | some b => IO.println (hex b)
  | none => IO.println "bad"
  loop h

def main : IO Unit := do loop (← IO.getStdin)
