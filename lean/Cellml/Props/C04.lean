/-! Property theorems for C04 (not built yet). -/
