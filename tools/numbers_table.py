#!/usr/bin/env python3
"""tools/numbers_table.py: the table of DESIGN.md 10.11 from evidence/*.json (as written by the last runs of the checks)."""
import glob
import json
import os

HERE = os.path.dirname(os.path.dirname(os.path.abspath(__file__)))
print('| id | theorems audited (all discharged, standard axioms) | of which in `Cellml.Tie.*` | quick cases (distinct '
      'non-trivial) | compared with the model | wall s |')
print('|----|---:|---:|---:|---:|---:|')
allthms = set()
for p in sorted(glob.glob(os.path.join(HERE, 'evidence', 'C*.json'))):
    d = json.load(open(p))
    c = d['coverage']
    th = c.get('theorems') or []
    names = [t['name'] if isinstance(t, dict) else str(t) for t in th]
    allthms.update(names)
    tie = sum(1 for n in names if n.startswith('Cellml.Tie.'))
    assert c['obligations'] == c['discharged'], p
    print('| %s | %d | %d | %d (%d) | %d | %d |' % (d['property_id'], c['obligations'], tie, c['evaluations'],
                                                     c['distinct_nontrivial'], c['correspondence_cases'], d['wall_s']))
print()
print('%d distinct theorems over the %d checks; tier/seed of the runs: %s' % (
    len(allthms), len(glob.glob(os.path.join(HERE, 'evidence', 'C*.json'))),
    sorted({(json.load(open(p))['tier'], json.load(open(p))['seed']) for p in glob.glob(os.path.join(HERE, 'evidence', 'C*.json'))})))
