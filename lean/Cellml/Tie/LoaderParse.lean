import Cellml.Generated.Code.LoaderParse
import Mathlib.Tactic.SplitIfs

/-! # Tie: `Parser.parse` (generated from the source: the order of the stages, the refusal of `<units>` inside a
    component) = `C17.loadFull` (hand model of the whole loader), the stages being those of the hand model -/

namespace Cellml.Tie
open Load Cellml.Gen

/-- **`Parser.parse`**: for every document, running the generated `parse` over the stages of the hand model
    (`parseView fd`: each stage is the model function the per-stage ties are about) gives the outcome of
    `C17.loadFull fd`: the same finished flat model, or the same exception class — i.e. the model runs its stages in
    the order of the source, and the first stage to raise is the same. -/
theorem parse_tie (fd : C17.FaultDoc) (us : Option Unit) :
    (LoaderParse.parse (parseView fd) us {}).map (·.flat) =
      match C17.loadFull fd with
      | .error e => .error ⟨C17.className e⟩
      | .ok F => .ok (some F) := by
  unfold LoaderParse.parse C17.loadFull
  simp only [parseView, bind, Except.bind, pure, Except.pure, throw, throwThe, MonadExceptOf.throw, stageErr]
  by_cases hs : C17.schemaVars fd.doc = true
  · simp only [hs, Bool.not_true, Bool.false_eq_true, if_false]
    by_cases hu : fd.compUnits = []
    case neg =>
      have h1 : (fd.compUnits.length != 0) = true := by
        cases h : fd.compUnits with
        | nil => exact absurd h hu
        | cons a l => rfl
      have h2 : (!fd.compUnits.isEmpty) = true := by
        cases h : fd.compUnits with
        | nil => exact absurd h hu
        | cons a l => rfl
      simp [h1, h2, Except.map, C17.className, Err.className]
    case pos =>
      simp only [hu, List.length_nil, bne_self_eq_false, Bool.false_eq_true, if_false, List.isEmpty_nil, Bool.not_true]
      cases hadd : Units.addUnits 0 fd.udefs with
      | error e => simp [Except.map]
      | ok u =>
        obtain ⟨reg, ust⟩ := u
        simp only []
        cases hr : C17.reactionErr ust fd with
        | some e => simp [Except.map]
        | none =>
          simp only [C17.prepareFrom]
          cases hc : checkComps ust fd.doc.comps [] ([], fd.doc.cmeta.toList) with
          | error e => simp [Except.map]
          | ok acc =>
            simp only []
            cases hb : buildParents (fd.doc.comps.map (·.name)) fd.doc.encaps [] [] with
            | error e => simp [Except.map]
            | ok par =>
              simp only []
              cases hd : directAll (fd.doc.comps.map (·.name)) par (varTable ust fd.doc.comps) fd.doc.conns with
              | error e => simp [Except.map]
              | ok dl =>
                simp only []
                cases hcn : connect reg (varTable ust fd.doc.comps) dl with
                | error e => simp [Except.map]
                | ok cst =>
                  simp only []
                  cases hbe : fd.badEqs.head? with
                  | some b => simp [Except.map]
                  | none =>
                    simp only [C17.finishFrom]
                    cases hm : checkMaths ust (varTable ust fd.doc.comps) cst fd.doc.comps
                        (cst.convs.map (·.target)) with
                    | error e => simp [Except.map]
                    | ok defined =>
                      simp only []
                      cases hk : checkConstants
                          (Loaded.states ⟨reg, ust, varTable ust fd.doc.comps, par, dl, cst⟩ fd.doc) defined
                          (varTable ust fd.doc.comps) with
                      | error e => simp [Except.map]
                      | ok u => simp [Except.map]
  · simp [hs, Except.map, C17.className, Err.className]

end Cellml.Tie
