import Cellml.C11.Wf

/-! C11 — constructs the printer cannot express: any occurrence in a printed position makes `doprint` fail. -/
namespace C11

/-- `bad pw e`: `e` contains, in a position the printer visits, a construct without a `_print_` method or a function
    that is not in the name table. `pw = true` reads a `cons`-list as the (value, condition) pairs of a Piecewise,
    which the printer leaves at the first `True` condition. -/
def bad : Bool → E → Bool
  | _, .other _ => true
  | _, .fn name a => (fnName name).isNone || bad false a
  | _, .add a | _, .mul a | _, .and a | _, .or a => bad false a
  | _, .pow b x | _, .rel _ b x | _, .pair b x => bad false b || bad false x
  | _, .pw ps => bad true ps
  | m, .cons h t => bad false h || (if m && isTruePair h then false else bad m t)
  | _, _ => false

theorem join_ne_ok_left (a b : Status) (h : a ≠ .ok) : a.join b ≠ .ok := by
  cases a <;> cases b <;> simp_all [Status.join]

theorem join_ne_ok_right (a b : Status) (h : b ≠ .ok) : a.join b ≠ .ok := by
  cases a <;> cases b <;> simp_all [Status.join]

theorem bad_rejects (e : E) : ∀ m, bad m e = true →
    (pr e).st ≠ .ok ∧ (m = true → (pwInner (pr e).items).1 ≠ .ok) ∧ (isTruePair e = true → False ∨ (pr e).st ≠ .ok) := by
  sorry

end C11
