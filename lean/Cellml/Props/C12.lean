import Cellml.C12.Lemmas
import Cellml.C12.Detect
import Cellml.C12.Forms
set_option linter.unusedSectionVars false
set_option linter.unusedSimpArgs false

/-! # C12 — singularity removal only repairs: equal outside the window, accurate inside.

    Model: `Cellml/C12/*.lean` — `Window` (singular point and fix range of an affine exponent argument, the swap, the
    two merges), `Piecewise` (`_generate_piecewise` on values, for an arbitrary function), `Fix` (`_fix_expr_parts`,
    `_remove_singularities`: which subterm is wrapped with which range, for an arbitrary detector), `Detect`
    (`_get_singularity` on the affine fragment), `Traverse` (`remove_fixable_singularities`). The theorems hold over
    EVERY ordered field `K` (all slopes, offsets, factors, voltages), every function `f` / every interpretation of
    `exp`, every expression tree, every detector, every model, every exclusion set. The tie to cellmlmanip is the
    correspondence check `harness/props/c12.py`.

    NOT proved (needs real analysis over `exp`): the distance between the interpolated value and the analytic limit of
    `U/(exp U − 1)`. The theorems carry the algebraic part — the range brackets the singular point and is exactly
    `|U| ≤ δ`; equality outside; inside a convex combination of the two edge values, equal to them at the edges — the
    numeric accuracy is checked by the oracle of the harness on every generated equation. -/

namespace Cellml.Props.C12
open _root_.C12 _root_.C12.Expr
variable {K : Type} [Field K] [LinearOrder K] [IsStrictOrderedRing K]

/-! ## The fix range -/

/-- The range produced for `U = k·V + c` (`k ≠ 0`, `δ > 0`): the singular point lies strictly between the two bounds
    (whichever of them is called `Vmin`), and after the swap of `_generate_piecewise` a voltage is inside the range
    exactly when `|U(V)| ≤ δ`. -/
theorem window_brackets (k c δ : K) (hk : k ≠ 0) (hδ : 0 < δ) :
    (min (vminOf k c δ) (vmaxOf k c δ) < spOf k c ∧ spOf k c < max (vminOf k c δ) (vmaxOf k c δ)) ∧
    ∀ V : K, (lo (vminOf k c δ) (vmaxOf k c δ) ≤ V ∧ V ≤ hi (vminOf k c δ) (vmaxOf k c δ)) ↔ |k * V + c| ≤ δ := by
  obtain ⟨hlo, hhi⟩ := lo_window k c δ hk hδ
  have hak : 0 < |k| := abs_pos.mpr hk
  have hd : 0 < δ / |k| := div_pos hδ hak
  refine ⟨⟨?_, ?_⟩, ?_⟩
  · rw [← lo_eq_min, hlo]; linarith
  · rw [← hi_eq_max, hhi]; linarith
  · intro V
    rw [hlo, hhi, affine_eq k c V hk, abs_mul, ← le_div_iff₀' hak, abs_le]
    constructor
    · rintro ⟨h1, h2⟩; constructor <;> linarith
    · rintro ⟨h1, h2⟩; constructor <;> linarith

/-- non-vacuity: `U = V/2 − 5/2`, `δ = 10⁻⁷`: `Vmin = 5.0000002 > Vmax = 4.9999998` (the swap is needed), `sp = 5` -/
example : (0 : ℚ) < 1 / 10000000 ∧ (1 / 2 : ℚ) ≠ 0 ∧
    vminOf (1 / 2 : ℚ) (-5 / 2) (1 / 10000000) = 50000002 / 10000000 ∧
    vmaxOf (1 / 2 : ℚ) (-5 / 2) (1 / 10000000) = 49999998 / 10000000 ∧ spOf (1 / 2 : ℚ) (-5 / 2) = 5 ∧
    lo (vminOf (1 / 2 : ℚ) (-5 / 2) (1 / 10000000)) (vmaxOf (1 / 2 : ℚ) (-5 / 2) (1 / 10000000)) = 49999998 / 10000000 := by
  decide +kernel

/-! ## The piecewise, for an arbitrary function `f` -/

/-- Outside the range the repaired expression evaluates to the original one — for ANY `f`, any bounds. -/
theorem outside_equal (f : K → K) (V vmin vmax : K)
    (h : ¬ (lo vmin vmax ≤ V ∧ V ≤ hi vmin vmax)) : generate f V vmin vmax = f V := by
  unfold generate interp; rw [if_neg h]

/-- Inside the range (bounds `a < b` after the swap) the value is the convex combination
    `(1 − t)·f(a) + t·f(b)` with `t = (V − a)/(b − a) ∈ [0, 1]` … -/
theorem inside_convex (f : K → K) (V a b : K) (hab : a < b) (h : a ≤ V ∧ V ≤ b) :
    interp f V a b = (1 - coeff V a b) * f a + coeff V a b * f b ∧ 0 ≤ coeff V a b ∧ coeff V a b ≤ 1 := by
  refine ⟨?_, coeff_mem V a b hab h⟩
  unfold interp; rw [if_pos h]; ring

/-- … hence between the two edge values (finite whenever they are) … -/
theorem inside_minmax (f : K → K) (V a b : K) (hab : a < b) (h : a ≤ V ∧ V ≤ b) :
    min (f a) (f b) ≤ interp f V a b ∧ interp f V a b ≤ max (f a) (f b) := by
  obtain ⟨he, h0, h1⟩ := inside_convex f V a b hab h
  rw [he]
  have h1' : 0 ≤ 1 - coeff V a b := by linarith
  constructor
  · have := min_le_left (f a) (f b); have := min_le_right (f a) (f b)
    nlinarith [mul_le_mul_of_nonneg_left (min_le_left (f a) (f b)) h1', mul_le_mul_of_nonneg_left (min_le_right (f a) (f b)) h0]
  · nlinarith [mul_le_mul_of_nonneg_left (le_max_left (f a) (f b)) h1', mul_le_mul_of_nonneg_left (le_max_right (f a) (f b)) h0]

/-- … and within `|f(b) − f(a)|` of either edge value … -/
theorem inside_close (f : K → K) (V a b : K) (hab : a < b) (h : a ≤ V ∧ V ≤ b) :
    |interp f V a b - f a| ≤ |f b - f a| ∧ |interp f V a b - f b| ≤ |f b - f a| := by
  obtain ⟨he, h0, h1⟩ := inside_convex f V a b hab h
  have e1 : interp f V a b - f a = coeff V a b * (f b - f a) := by rw [he]; ring
  have e2 : interp f V a b - f b = (1 - coeff V a b) * (-(f b - f a)) := by rw [he]; ring
  constructor
  · rw [e1, abs_mul, abs_of_nonneg h0]
    exact mul_le_of_le_one_left (abs_nonneg _) h1
  · rw [e2, abs_mul, abs_neg, abs_of_nonneg (by linarith : 0 ≤ 1 - coeff V a b)]
    exact mul_le_of_le_one_left (abs_nonneg _) (by linarith)

/-- … and equal to them at the edges: the repaired expression is continuous where it switches. -/
theorem at_edges (f : K → K) (a b : K) (hab : a < b) : interp f a a b = f a ∧ interp f b a b = f b := by
  unfold interp coeff
  have hb : b - a ≠ 0 := by intro h; linarith
  constructor
  · rw [if_pos ⟨le_refl a, le_of_lt hab⟩]; simp
  · rw [if_pos ⟨le_of_lt hab, le_refl b⟩, div_self hb]; ring

/-- The statement for `_generate_piecewise` itself (with its swap): for distinct bounds and a voltage inside. -/
theorem inside_between (f : K → K) (V vmin vmax : K) (hne : vmin ≠ vmax)
    (h : lo vmin vmax ≤ V ∧ V ≤ hi vmin vmax) :
    (∃ t : K, 0 ≤ t ∧ t ≤ 1 ∧
      generate f V vmin vmax = (1 - t) * f (lo vmin vmax) + t * f (hi vmin vmax)) ∧
    min (f (lo vmin vmax)) (f (hi vmin vmax)) ≤ generate f V vmin vmax ∧
    generate f V vmin vmax ≤ max (f (lo vmin vmax)) (f (hi vmin vmax)) ∧
    |generate f V vmin vmax - f (lo vmin vmax)| ≤ |f (hi vmin vmax) - f (lo vmin vmax)| ∧
    |generate f V vmin vmax - f (hi vmin vmax)| ≤ |f (hi vmin vmax) - f (lo vmin vmax)| ∧
    generate f (lo vmin vmax) vmin vmax = f (lo vmin vmax) ∧ generate f (hi vmin vmax) vmin vmax = f (hi vmin vmax) := by
  have hab : lo vmin vmax < hi vmin vmax := by
    rw [lo_eq_min, hi_eq_max]
    rcases lt_or_gt_of_ne hne with h' | h'
    · rw [min_eq_left (le_of_lt h'), max_eq_right (le_of_lt h')]; exact h'
    · rw [min_eq_right (le_of_lt h'), max_eq_left (le_of_lt h')]; exact h'
  obtain ⟨he, h0, h1⟩ := inside_convex f V _ _ hab h
  obtain ⟨hmin, hmax⟩ := inside_minmax f V _ _ hab h
  obtain ⟨hc1, hc2⟩ := inside_close f V _ _ hab h
  obtain ⟨he1, he2⟩ := at_edges f _ _ hab
  exact ⟨⟨_, h0, h1, he⟩, hmin, hmax, hc1, hc2, he1, he2⟩

/-- non-vacuity: `f = x²` on the range `[1, 3]` given as `(Vmin, Vmax) = (3, 1)`: at `V = 2` the line gives 5 (not 4),
    outside (`V = 4`) the function itself -/
example : generate (fun x : ℚ => x * x) 2 3 1 = 5 ∧ generate (fun x : ℚ => x * x) 4 3 1 = 16 ∧
    (3 : ℚ) ≠ 1 ∧ (lo (3 : ℚ) 1 ≤ 2 ∧ (2 : ℚ) ≤ hi 3 1) ∧ ¬ (lo (3 : ℚ) 1 ≤ 4 ∧ (4 : ℚ) ≤ hi 3 1) := by
  decide +kernel

/-- The result does not depend on which of the two bounds is called `Vmin`. -/
theorem swap_irrelevant (f : K → K) (V vmin vmax : K) : generate f V vmin vmax = generate f V vmax vmin := by
  unfold generate
  rw [lo_eq_min, hi_eq_max, lo_eq_min, hi_eq_max, min_comm, max_comm]

/-! ## Merging ranges with the same singular point -/

/-- The widest range of two (what `_fix_expr_parts` builds for the terms of a sum) contains both, keeps the singular
    point, and is ordered. -/
theorem merge_widest (s t : Win K) :
    Within s (mergeWide s t) ∧ Within t (mergeWide s t) ∧ (mergeWide s t).sp = s.sp ∧
    (mergeWide s t).vmin ≤ (mergeWide s t).vmax := by
  obtain ⟨h1, h2, h3, h4⟩ := min4_le s.vmin s.vmax t.vmin t.vmax
  obtain ⟨g1, g2, g3, g4⟩ := le_max4 s.vmin s.vmax t.vmin t.vmax
  have hord : (mergeWide s t).vmin ≤ (mergeWide s t).vmax := by
    simp only [mergeWide, min2_eq, max2_eq]; exact le_trans h1 g1
  refine ⟨⟨?_, ?_⟩, ⟨?_, ?_⟩, rfl, hord⟩
  all_goals simp only [Win.lo_eq, Win.hi_eq, mergeWide, min2_eq, max2_eq] at hord ⊢
  · rw [min_eq_left hord]; exact le_min h1 h2
  · rw [max_eq_right hord]; exact max_le g1 g2
  · rw [min_eq_left hord]; exact le_min h3 h4
  · rw [max_eq_right hord]; exact max_le g3 g4

/-- The same for any number of terms of a sum (`min(range)`, `max(range)` over all bounds). -/
theorem merge_all_widest (s : Win K) (ts : List (Win K)) :
    Within s (mergeAll s ts) ∧ (∀ t ∈ ts, Within t (mergeAll s ts)) ∧ (mergeAll s ts).sp = s.sp ∧
    (mergeAll s ts).vmin ≤ (mergeAll s ts).vmax := by
  induction ts generalizing s with
  | nil =>
    simp only [mergeAll, Within, Win.lo_eq, Win.hi_eq, min2_eq, max2_eq]
    have h : min s.vmin s.vmax ≤ max s.vmin s.vmax := le_trans (min_le_left _ _) (le_max_left _ _)
    refine ⟨⟨?_, ?_⟩, ?_, trivial, h⟩
    · rw [min_eq_left h]
    · rw [max_eq_right h]
    · intro t ht; cases ht
  | cons t ts ih =>
    obtain ⟨hs, ht, hsp, _⟩ := merge_widest s t
    obtain ⟨i1, i2, i3, i4⟩ := ih (mergeWide s t)
    simp only [mergeAll]
    refine ⟨within_trans hs i1, ?_, by rw [i3, hsp], i4⟩
    intro u hu
    rcases List.mem_cons.mp hu with rfl | hu
    · exact within_trans ht i1
    · exact i2 u hu

/-- `_get_singularity` (lines 240-241) assigns `sing[0]` and then `sing[1]` in sequence. The result still covers the
    new range and the lower end of the old one, and the whole old one when that was stored in order … -/
theorem merge_seq_partial (s : Win K) (vmin vmax : K) :
    Within ⟨vmin, vmax, s.sp⟩ (mergeSeq s vmin vmax) ∧ (mergeSeq s vmin vmax).lo ≤ s.lo ∧
    (s.vmin ≤ s.vmax → Within s (mergeSeq s vmin vmax)) := by
  obtain ⟨h1, h2, h3, h4⟩ := min4_le s.vmin s.vmax vmin vmax
  obtain ⟨g1, g2, g3, g4⟩ := le_max4 (min (min (min s.vmin s.vmax) vmin) vmax) s.vmax vmin vmax
  have hord : (mergeSeq s vmin vmax).vmin ≤ (mergeSeq s vmin vmax).vmax := by
    simp only [mergeSeq, min2_eq, max2_eq]; exact g1
  simp only [Within, Win.lo_eq, Win.hi_eq, mergeSeq, min2_eq, max2_eq] at hord ⊢
  rw [min_eq_left hord, max_eq_right hord]
  refine ⟨⟨le_min h3 h4, max_le g3 g4⟩, le_min h1 h2, fun hs => ⟨le_min h1 h2, ?_⟩⟩
  rw [max_eq_right hs]; exact g2

/-- … but NOT always its upper end: the full statement "the merged range contains both" is false of the code as it is.
    A range found first from a positive slope is stored as `(Vmin, Vmax) = (4, −4)`; merging `(−1, 1)` gives `(−4, 1)`.
    (The merged range still brackets the singular point and the property C12 is not affected: what lies outside the
    narrower range is evaluated by the original formula.) -/
theorem merge_seq_not_widest :
    ¬ ((⟨4, -4, 0⟩ : Win ℚ).hi ≤ (mergeSeq (⟨4, -4, 0⟩ : Win ℚ) (-1) 1).hi) := by
  decide +kernel

/-- non-vacuity of `merge_widest`: ranges of slopes 1/2 and −1/4 around 5 (in units of 10⁻⁷: ±2 and ∓4) -/
example : mergeWide (⟨52, 48, 50⟩ : Win ℚ) ⟨46, 54, 50⟩ = ⟨46, 54, 50⟩ := by decide +kernel

/-! ## The traversal of the model -/

/-- The defined variables are unchanged: the list of left-hand sides of `Model.equations` after the call is a
    permutation of the one before (a replaced equation keeps its left-hand side), for any `fix`, any exclusions. -/
theorem defined_vars_unchanged (fix : Expr → Option Expr) (excl : List String) (order eqs : List Eqn)
    (hn : (lhss eqs).Nodup) (hm : ∀ e ∈ order, e.lhs ∈ lhss eqs) :
    (lhss (traverse fix excl order eqs).eqs).Perm (lhss eqs) :=
  foldl_perm fix excl order ⟨eqs, []⟩ hn hm

/-- An equation is still there, unchanged, when its right-hand side is a `Piecewise`, or its variable is excluded,
    or `_remove_singularities` reports no change for it (whatever was substituted into it). -/
theorem survives (fix : Expr → Option Expr) (excl : List String) (order eqs : List Eqn) (e0 : Eqn)
    (hn : (lhss eqs).Nodup) (hsub : ∀ e ∈ order, e ∈ eqs) (h0 : e0 ∈ eqs)
    (h : e0.rhs.isPiecewise = true ∨ excl.contains e0.lhs = true ∨ ∀ env, fix (subst env e0.rhs) = none) :
    e0 ∈ (traverse fix excl order eqs).eqs := by
  unfold traverse
  suffices H : ∀ (order : List Eqn) (st : TState), (∀ e ∈ order, e ∈ eqs) → e0 ∈ st.eqs →
      e0 ∈ (order.foldl (step fix excl) st).eqs from H order ⟨eqs, []⟩ hsub h0
  intro order
  induction order with
  | nil => intro st _ h; exact h
  | cons e es ih =>
    intro st hs hmem
    simp only [List.foldl_cons]
    apply ih _ (fun e' he' => hs e' (List.mem_cons_of_mem _ he'))
    apply step_keeps fix excl st e e0 hmem
    by_cases hl : e.lhs = e0.lhs
    · have : e = e0 := eq_of_lhs eqs hn e e0 (hs e List.mem_cons_self) h0 hl
      subst this
      rcases h with h | h | h
      · exact Or.inr (Or.inl h)
      · exact Or.inr (Or.inr (Or.inl h))
      · exact Or.inr (Or.inr (Or.inr (h _)))
    · exact Or.inl hl

/-- Equations of excluded variables are left unchanged (no assumption on the model at all). -/
theorem excluded_unchanged (fix : Expr → Option Expr) (excl : List String) (order eqs : List Eqn) (e0 : Eqn)
    (h0 : e0 ∈ eqs) (hx : e0.lhs ∈ excl) : e0 ∈ (traverse fix excl order eqs).eqs := by
  unfold traverse
  suffices H : ∀ (order : List Eqn) (st : TState), e0 ∈ st.eqs →
      e0 ∈ (order.foldl (step fix excl) st).eqs from H order ⟨eqs, []⟩ h0
  intro order
  induction order with
  | nil => intro st h; exact h
  | cons e es ih =>
    intro st hmem
    simp only [List.foldl_cons]
    apply ih
    apply step_keeps fix excl st e e0 hmem
    by_cases hl : e.lhs = e0.lhs
    · right; right; left
      rw [hl]; simpa using hx
    · exact Or.inl hl

/-- An equation whose right-hand side is a `Piecewise` is left unchanged. -/
theorem piecewise_rhs_unchanged (fix : Expr → Option Expr) (excl : List String) (order eqs : List Eqn) (e0 : Eqn)
    (hn : (lhss eqs).Nodup) (hsub : ∀ e ∈ order, e ∈ eqs) (h0 : e0 ∈ eqs) (hp : e0.rhs.isPiecewise = true) :
    e0 ∈ (traverse fix excl order eqs).eqs :=
  survives fix excl order eqs e0 hn hsub h0 (Or.inl hp)

/-- If `fix` never reports a change, `Model.equations` is literally unchanged. -/
theorem all_unchanged (fix : Expr → Option Expr) (excl : List String) (order eqs : List Eqn)
    (h : ∀ r, fix r = none) : (traverse fix excl order eqs).eqs = eqs := by
  unfold traverse
  suffices H : ∀ (order : List Eqn) (st : TState), (order.foldl (step fix excl) st).eqs = st.eqs from H order ⟨eqs, []⟩
  intro order
  induction order with
  | nil => intro st; rfl
  | cons e es ih =>
    intro st
    simp only [List.foldl_cons]
    rw [ih]
    unfold step
    split
    · rfl
    · dsimp only; rw [h]

/-- `_remove_singularities` leaves an expression without `exp` alone … -/
theorem removeSing_noexp (det : List Expr → List (Win Rat)) (e : Expr) (h : e.hasExp = false) :
    removeSing det e = none := by
  unfold removeSing; simp [h]

/-- … and one in which the detector finds no pattern in any product (nothing wrapped, nothing reported changed). -/
theorem fixParts_nodet (det : List Expr → List (Win Rat)) (hdet : ∀ as, det as = []) :
    ∀ (n : Nat) (e : Expr), (fixParts det n e).win = none ∧ (fixParts det n e).changed = false := by
  intro n
  induction n with
  | zero => intro e; exact ⟨rfl, rfl⟩
  | succ n ih =>
    intro e
    unfold fixParts
    split
    · exact ⟨rfl, rfl⟩
    · have htouch : ∀ as : List Expr, (as.map (fixParts det n)).any Res.touched = false := by
        intro as
        rw [List.any_eq_false]
        intro r hr
        obtain ⟨a, _, rfl⟩ := List.mem_map.mp hr
        simp [Res.touched, (ih a).1, (ih a).2]
      cases dropOnes e with
      | add as =>
        simp only [fixBody]
        rw [sameSp_none _ (by
          intro r hr
          obtain ⟨a, _, rfl⟩ := List.mem_map.mp hr
          exact (ih a).1)]
        exact ⟨rfl, htouch as⟩
      | pow a k =>
        simp only [fixBody]
        split
        · refine ⟨rfl, ?_⟩
          simp [Res.touched, (ih _).1, (ih _).2]
        · exact ⟨rfl, rfl⟩
      | mul as =>
        simp only [fixBody]
        rw [hdet as]
        exact ⟨rfl, htouch as⟩
      | num q => exact ⟨rfl, rfl⟩
      | volt => exact ⟨rfl, rfl⟩
      | var n => exact ⟨rfl, rfl⟩
      | exp a => exact ⟨rfl, rfl⟩
      | pw lo hi f => exact ⟨rfl, rfl⟩
      | fn name as => exact ⟨rfl, rfl⟩

theorem removeSing_nodet (det : List Expr → List (Win Rat)) (hdet : ∀ as, det as = []) (e : Expr) :
    removeSing det e = none := by
  unfold removeSing
  split
  · rfl
  · simp [Res.touched, (fixParts_nodet det hdet _ e).1, (fixParts_nodet det hdet _ e).2]

/-- Equations without such a pattern are left unchanged: no `exp` in the (partially evaluated) right-hand side. -/
theorem no_pattern_unchanged (det : List Expr → List (Win Rat)) (excl : List String) (order eqs : List Eqn) (e0 : Eqn)
    (hn : (lhss eqs).Nodup) (hsub : ∀ e ∈ order, e ∈ eqs) (h0 : e0 ∈ eqs)
    (hx : ∀ env, (subst env e0.rhs).hasExp = false) :
    e0 ∈ (traverse (removeSing det) excl order eqs).eqs :=
  survives _ excl order eqs e0 hn hsub h0 (Or.inr (Or.inr (fun env => removeSing_noexp det _ (hx env))))

/-- When no product of the model matches, `Model.equations` is literally unchanged. -/
theorem no_match_model_unchanged (det : List Expr → List (Win Rat)) (hdet : ∀ as, det as = [])
    (excl : List String) (order eqs : List Eqn) : (traverse (removeSing det) excl order eqs).eqs = eqs :=
  all_unchanged _ excl order eqs (removeSing_nodet det hdet)


/-! ## The four documented forms are always detected and repaired (affine exponent argument)

    `form n P k c` (`Cellml/C12/Forms.lean`): the arguments of the product `P·U/(exp U − 1)` (n = 0), `P·U/(1 − exp U)`
    (1), `P·(exp U − 1)/U` (2), `P·(1 − exp U)/U` (3) with `U = k·V + c`, for ALL rational `P`, `k ≠ 0`, `c`, in either
    order of the factors. -/

/-- exactly one range, the one of `U`: `Vmin = (δ − c)/k`, `Vmax = (−δ − c)/k`, `sp = −c/k` -/
theorem forms_detected (δ : Rat) (P k c : Rat) (hk : k ≠ 0) (hc : c ≠ 0) (n : Nat) (rev : Bool) :
    detect δ rev (form n P k c) = [window k c δ] := by
  have e1 := classify_num P
  have e2 := classify_U k c hk hc
  have e3 := classify_Upow k c hk hc
  have e4 := factor_emPos k c hk
  have e5 := factor_emNeg k c hk
  have e6 := factor_emPos1 k c hk
  have e7 := factor_emNeg1 k c hk
  have b1 : ∀ q, (Base.const q == Base.unsup) = false := fun _ => rfl
  have b2 : ∀ a b, (Base.aff a b == Base.unsup) = false := fun _ _ => rfl
  have b3 : ∀ a b p, (Base.em a b p == Base.unsup) = false := fun _ _ _ => rfl
  unfold detect detect?
  match n with
  | 0 => cases rev <;> simp [form, classifyAll, e1, e2, e3, e4, e5, e6, e7, normalise, insertFactor, sameBase, pass, onTop, record, baseHasExp, absInt, window, spOf, b1, b2, b3]
  | 1 => cases rev <;> simp [form, classifyAll, e1, e2, e3, e4, e5, e6, e7, normalise, insertFactor, sameBase, pass, onTop, record, baseHasExp, absInt, window, spOf, b1, b2, b3]
  | 2 => cases rev <;> simp [form, classifyAll, e1, e2, e3, e4, e5, e6, e7, normalise, insertFactor, sameBase, pass, onTop, record, baseHasExp, absInt, window, spOf, b1, b2, b3]
  | n + 3 => cases rev <;> simp [form, classifyAll, e1, e2, e3, e4, e5, e6, e7, normalise, insertFactor, sameBase, pass, onTop, record, baseHasExp, absInt, window, spOf, b1, b2, b3]


/-- offset zero (`U = k·V`): SymPy holds `k·V` as a product, the factor `V` is what matches -/
theorem forms_detected_zero_offset (δ : Rat) (P k : Rat) (hk : k ≠ 0) (hk1 : k ≠ 1) (n : Nat) (rev : Bool) :
    detect δ rev (form n P k 0) = [window k 0 δ] := by
  have e1 := classify_num P
  have e2 := classify_U0' k hk hk1
  have e3 := classify_U0 k hk hk1
  have e4 := factor_emPos k 0 hk
  have e5 := factor_emNeg k 0 hk
  have e6 := factor_emPos1 k 0 hk
  have e7 := factor_emNeg1 k 0 hk
  have b1 : ∀ q, (Base.const q == Base.unsup) = false := fun _ => rfl
  have b2 : ∀ a b, (Base.aff a b == Base.unsup) = false := fun _ _ => rfl
  have b3 : ∀ a b p, (Base.em a b p == Base.unsup) = false := fun _ _ _ => rfl
  unfold detect detect?
  match n with
  | 0 => cases rev <;> simp [form, classifyAll, e1, e2, e3, e4, e5, e6, e7, normalise, insertFactor, sameBase, pass, onTop, record, baseHasExp, absInt, window, spOf, b1, b2, b3]
  | 1 => cases rev <;> simp [form, classifyAll, e1, e2, e3, e4, e5, e6, e7, normalise, insertFactor, sameBase, pass, onTop, record, baseHasExp, absInt, window, spOf, b1, b2, b3]
  | 2 => cases rev <;> simp [form, classifyAll, e1, e2, e3, e4, e5, e6, e7, normalise, insertFactor, sameBase, pass, onTop, record, baseHasExp, absInt, window, spOf, b1, b2, b3]
  | n + 3 => cases rev <;> simp [form, classifyAll, e1, e2, e3, e4, e5, e6, e7, normalise, insertFactor, sameBase, pass, onTop, record, baseHasExp, absInt, window, spOf, b1, b2, b3]


/-- every equation `x = P·(one of the four forms)` with an affine exponent argument IS repaired, with exactly the
    range `|U| ≤ δ` around the whole product -/
theorem forms_repaired (δ : Rat) (P k c : Rat) (hk : k ≠ 0) (hc : c ≠ 0) (hP : P ≠ 1) (n : Nat) (rev : Bool) :
    removeSing (detect δ rev) (mul (form n P k c)) = some (wrapWin (window k c δ) (mul (form n P k c))) := by
  unfold removeSing
  rw [form_hasExp]
  simp only [Bool.not_true, Bool.false_eq_true, if_false]
  unfold fixParts
  rw [form_hasExp, form_dropOnes n P k c hP]
  simp only [Bool.not_true, Bool.false_eq_true, if_false, fixBody, forms_detected δ P k c hk hc n rev]
  simp [Res.touched, wrap]


/-- non-vacuity: the hypotheses are met by `P = 3, k = 1/2, c = −5/2` (and `k = −3, c = 0`) -/
example : (1 / 2 : Rat) ≠ 0 ∧ (-5 / 2 : Rat) ≠ 0 ∧ (3 : Rat) ≠ 1 ∧ (-3 : Rat) ≠ 0 ∧ (-3 : Rat) ≠ 1 := by decide +kernel

/-! ## The repaired expression and the repaired model, semantically -/

/-- A generated piecewise in a tree IS `_generate_piecewise` on values, with `f` the wrapped subterm read as a function
    of the voltage — so `outside_equal` / `inside_between` speak about the trees the model produces. -/
theorem pw_is_generate (I : Interp K) (v : K) (w : Win Rat) (f : Expr) :
    eval I v (wrapWin w f) = interp (fun x => eval I x f) v ((w.lo : ℚ) : K) ((w.hi : ℚ) : K) := by
  simp [wrapWin, eval]

/-- Outside every generated range the expression returned by `_fix_expr_parts` (+ the final wrap) has the value of
    the original one: every expression, every fuel, every detector, every interpretation of `exp`/functions/variables. -/
theorem fix_outside_equal (I : Interp K) (v : K) (det : List Expr → List (Win Rat)) (n : Nat) (e : Expr)
    (h : clear v (wrap (fixParts det n e))) : eval I v (wrap (fixParts det n e)) = eval I v e :=
  fixParts_outside I v det n e h

/-- The same for `_remove_singularities`. -/
theorem remove_outside_equal (I : Interp K) (v : K) (det : List Expr → List (Win Rat)) (e new : Expr)
    (h : removeSing det e = some new) (hc : clear v new) : eval I v new = eval I v e :=
  removeSing_outside I v det e new h hc

/-- **Only repairs.** Every solution of the original model (an interpretation under which every equation holds at
    every voltage) satisfies every equation of the model after `remove_fixable_singularities` at every voltage outside
    the generated ranges of that equation. -/
theorem traverse_sound (I : Interp K) (det : List Expr → List (Win Rat)) (excl : List String) (order eqs : List Eqn)
    (hsub : ∀ e ∈ order, e ∈ eqs) (hs : Solves I eqs) :
    SolvesOutside I (traverse (removeSing det) excl order eqs).eqs := by
  unfold traverse
  suffices H : ∀ (order : List Eqn) (st : TState), (∀ e ∈ order, e ∈ eqs) → EnvOK I st.env → SolvesOutside I st.eqs →
      SolvesOutside I (order.foldl (step (removeSing det) excl) st).eqs from
    H order ⟨eqs, []⟩ hsub (by intro n r hl; simp [lookup] at hl) (fun e he v _ => hs e he v)
  intro order
  induction order with
  | nil => intro st _ _ h; exact h
  | cons e es ih =>
    intro st ho henv hst
    simp only [List.foldl_cons]
    obtain ⟨h1, h2⟩ := step_sound I det excl st e (hs e (ho e List.mem_cons_self)) henv hst
    exact ih _ (fun e' he' => ho e' (List.mem_cons_of_mem _ he')) h1 h2

/-! ## Non-vacuity on a concrete model: `x = 3·U/(exp U − 1)`, `U = V/2 − 5/2`; `y = 2`; `z = 3·V` excluded -/

def exU : Expr := add [mul [num (1 / 2), volt], num (-5 / 2)]
def exX : Expr := mul [num 3, exU, pow (add [num (-1), exp exU]) (-1)]
def exEqs : List Eqn := [⟨"x", exX⟩, ⟨"y", num 2⟩, ⟨"z", mul [num 3, volt]⟩]
def exδ : Rat := 1 / 10000000

/-- the detector finds exactly the range `[4.9999998, 5.0000002]` around 5; `x` is replaced (and moves to the end of
    `Model.equations`), `y` and the excluded `z` stay; the hypotheses of the traversal theorems hold -/
example : detect exδ false [num 3, exU, pow (add [num (-1), exp exU]) (-1)] = [window (1 / 2) (-5 / 2) exδ] ∧
    (removeSing (detect exδ false) exX).isSome = true ∧
    lhss (traverse (removeSing (detect exδ false)) ["z"] exEqs exEqs).eqs = ["y", "z", "x"] ∧
    (lhss exEqs).Nodup ∧ (∀ e ∈ exEqs, e ∈ exEqs) ∧
    (∀ env, (subst env (num 2)).hasExp = false) := by
  refine ⟨by decide +kernel, by decide +kernel, by decide +kernel, by decide +kernel, fun e h => h, fun env => rfl⟩

/-- a solution of the concrete model exists for any interpretation of `exp` (the hypothesis of `traverse_sound`) -/
example (ex : ℚ → ℚ) : ∃ I : Interp ℚ, I.ex = ex ∧ Solves I exEqs := by
  let I0 : Interp ℚ := ⟨ex, fun _ _ => 0, fun _ _ => 0⟩
  refine ⟨⟨ex, fun _ _ => 0, fun n v => if n = "x" then eval I0 v exX else if n = "y" then 2 else 3 * v⟩, rfl, ?_⟩
  intro e he v
  simp only [exEqs, List.mem_cons, List.not_mem_nil, or_false] at he
  rcases he with rfl | rfl | rfl <;> simp [eval, evalProd, evalSum, exX, exU, I0]

end Cellml.Props.C12
