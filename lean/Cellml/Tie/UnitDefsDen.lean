import Cellml.Tie.UnitDefsMake

/-! # What the expression built by `_make_pint_unit_definition` means to pint = `Units.elemMeaning` / `Units.defMeaning` -/

namespace Cellml.Tie.PUnitDefs
open Units Cellml.Gen

theorem smul_one' {κ : Type} (a : PMap κ) : PMap.smul 1 a = a := by
  induction a with
  | nil => rfl
  | cons h t ih =>
    obtain ⟨k, e⟩ := h
    simp only [PMap.smul, List.map_cons, Rat.one_mul] at ih ⊢
    rw [ih]

@[simp] theorem powLit_den (p : String) :
    (if (unitPrefixes.lookup p).isSome then PowLit.table p else PowLit.sci p).den =
      match prefixPower p with
      | some k => .ok (pow10 k)
      | none => .error (.badNumber ("prefix " ++ p)) := by
  unfold prefixPower
  cases h : unitPrefixes.lookup p with
  | none => simp only [Option.isSome_none, Bool.false_eq_true, if_false, PowLit.den]; cases Decimal.parseInt p <;> rfl
  | some o => cases o <;> simp [PowLit.den, h]

/-- one element: the value of the expression built by the source is `Units.elemMeaning` -/
theorem elemExpr_den (id : Nat) (e : UnitElem) (h : elemOffsetBad e = false) :
    (elemExpr e).den id = elemMeaning id e := by
  obtain ⟨u, pf, ex, mu, off⟩ := e
  unfold elemMeaning elemExpr
  rcases pf with _ | p <;> rcases ex with _ | x <;> rcases mu with _ | m <;> rcases off with _ | o
  all_goals (try simp only [elemOffsetBad] at h)
  all_goals (try (cases hP : prefixPower p))
  all_goals (try (cases hX : Decimal.parse x))
  all_goals (try (cases hM : Decimal.parse m <;> try (rename_i q; cases hF : Factor.rat q)))
  all_goals
    simp_all [UExpr.den, bind, Except.bind, pure, Except.pure, throw, throwThe, MonadExceptOf.throw, smul_one',
      PMap.add]

/-- the whole definition: the value pint computes for `a*b*…` is `Units.defMeaning` -/
theorem denAll_map (id : Nat) (elems : List UnitElem) (h : elems.any elemOffsetBad = false) :
    denAll id (elems.map elemExpr) = defMeaning id elems := by
  induction elems with
  | nil => rfl
  | cons e es ih =>
    simp only [List.any_cons, Bool.or_eq_false_iff] at h
    simp only [List.map_cons, denAll, defMeaning, elemExpr_den id e h.1, ih h.2]

end Cellml.Tie.PUnitDefs
