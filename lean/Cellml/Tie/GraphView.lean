import Cellml.Tie.Prelude
import Cellml.C09.Model

/-! # What the translated functions `Model.get_equations_for`, `Model.graph_with_sympy_numbers`, `Model.graph`
    (cellmlmanip/model.py) see of the model, in terms of the hand-written model `Cellml/C09/Model.lean`

    The pattern tables of `harness/code_specs/graph*.py` bind each python leaf (a networkx call, a sympy call, an
    attribute of a `Variable`) to one of the accessors below. Core Lean only. -/

namespace Cellml.Tie.PGraph
open C09

/-! ## Exception classes

    The hand model `C09.Err` is coarser than python's exception classes in two places (both written down in
    notes/reports/C09.md): a request that is not a node is `NetworkXError` from `nx.ancestors` but `KeyError` from
    `graph.pred[…]` (one model error `notInGraph`); a reference that is neither a node nor a state / free variable is
    `AssertionError` (`assert False`), or `AttributeError` when it is a derivative (`Derivative` has no `.type`): one
    model error `badRef` (the C09 model numbers variables and derivatives alike). -/

/-- the python exception class of a `C09.Err` raised inside `get_equations_for` -/
def errName (recurse : Bool) : Err → String
  | .assertion => "AssertionError"
  | .badRef => "AssertionError"
  | .notInGraph => if recurse then "NetworkXError" else "KeyError"
  | .unfeasible => "NetworkXUnfeasible"

/-! ## networkx leaves -/

/-- `nx.ancestors(graph, v)`: `NetworkXError` when `v` is not a node -/
def nxAncestors (g : Graph) (v : Node) : Except PyErr (List Node) :=
  if v ∈ g.nodes then .ok (ancestors g v) else .error ⟨"NetworkXError"⟩

/-- `graph.pred[v]`: `KeyError` when `v` is not a node -/
def nxPred (g : Graph) (v : Node) : Except PyErr (List Node) :=
  if v ∈ g.nodes then .ok (preds g v) else .error ⟨"KeyError"⟩

/-- `nx.lexicographical_topological_sort(graph, key=…)`: a GENERATOR, so the value is the suspended computation; it is
    run where the `for` loop iterates over it (`NetworkXUnfeasible` is raised from inside the iteration) -/
def nxLexTopo (key : Node → String) (g : Graph) : Except PyErr (List Node) :=
  match lexTopo key g with
  | .ok l => .ok l
  | .error _ => .error ⟨"NetworkXUnfeasible"⟩

/-- `graph.in_edges(v)` (as a tuple: a snapshot) -/
def nxInEdges (g : Graph) (v : Node) : List Edge := g.edges.filter (·.2 == v)

/-- `graph.remove_edge(u, v)` -/
def nxRemoveEdge (g : Graph) (u v : Node) : Graph := ⟨g.nodes, g.edges.filter (fun e => !(e == (u, v)))⟩

/-! ## `Model.get_equations_for` -/

/-- `Model` as seen by `get_equations_for` -/
structure EqsView where
  /-- `self.graph` (a property: building may raise) -/
  graph : Except PyErr Graph
  /-- `self.graph_with_sympy_numbers` -/
  graphNum : Except PyErr Graph
  /-- `str` (the sort key handed to networkx) -/
  key : Node → String
  /-- `graph.nodes[v]['equation']` (`None` for a state / free variable without equation). In the graph with sympy
      numbers the attribute holds the rewritten equation: same left-hand side, which is all the model returns. -/
  equationOf : Node → Option Eqn

def eqsView (key : Node → String) (eqs : List Eqn) (recurse : Bool) : EqsView where
  graph := errClass (errName recurse) (buildGraph key eqs)
  graphNum := errClass (errName recurse) ((buildGraph key eqs).map (stripGraph eqs))
  key := key
  equationOf := eqnOf eqs

/-! ## `Model.graph_with_sympy_numbers` -/

/-- the value of an attribute / variable that python knows is not `None` at that point (`equation` after
    `if equation is None: continue`) -/
def theEqn (o : Option Eqn) : Eqn := o.getD ⟨0, [], [], none, false⟩

@[simp] theorem theEqn_some (e : Eqn) : theEqn (some e) = e := rfl

/-- the cached graph after `if self._graph_with_sympy_numbers is not None` -/
def theGraph (o : Option Graph) : Graph := o.getD ⟨[], []⟩

@[simp] theorem theGraph_some (g : Graph) : theGraph (some g) = g := rfl

/-- `Model` as seen by `graph_with_sympy_numbers`. `Q` numbers the `Quantity` objects. -/
structure NumView where
  /-- `self.graph.copy()` (building may raise) -/
  graph : Except PyErr Graph
  /-- `graph.nodes[v]['equation']` -/
  equationOf : Node → Option Eqn
  /-- `equation.rhs.atoms(Quantity)` (sympy) -/
  dummies : Eqn → List Nat
  /-- `equation.rhs.xreplace({d: d.evalf(FLOAT_PRECISION) …})` (sympy): the substituted right-hand side, identified by
      the equation it came from -/
  xreplace : Eqn → List Nat → Eqn
  /-- `self.find_variables_and_derivatives([rhs])` of a substituted right-hand side: the model's input `refsNum` -/
  refsOfRhs : Eqn → List Node

/-- the `Quantity` atoms of a right-hand side, as far as the code asks: only the truthiness of the dict built from them
    (`if subs_dict:`), which is the model's input `Eqn.hasQ` = `bool(equation.rhs.atoms(Quantity))` -/
def quantityAtoms (e : Eqn) : List Nat := if e.hasQ then [0] else []

@[simp] theorem quantityAtoms_isEmpty (e : Eqn) : (quantityAtoms e).isEmpty = !e.hasQ := by
  unfold quantityAtoms; cases e.hasQ <;> rfl

def numView (eqs : List Eqn) (gr : Except PyErr Graph) : NumView where
  graph := gr
  equationOf := eqnOf eqs
  dummies := quantityAtoms
  xreplace e _ := e
  refsOfRhs e := e.refsNum

/-! ## `Model.graph` -/

/-- `VariableType` (the members `Model.graph` writes) -/
inductive VT | state | free | parameter | computed
deriving DecidableEq, Repr

/-- the `type` attributes of the `Variable` objects: an association list, most recent write first; a variable that
    was never written has whatever an earlier build left (`none` on a fresh model) -/
abbrev TyMap := List (Node × Option VT)

/-- `v.type = t` -/
def tySet (ty : TyMap) (v : Node) (t : Option VT) : TyMap := (v, t) :: ty

/-- `v.type` -/
def tyGet (ty : TyMap) (v : Node) : Option VT := (ty.lookup v).join

/-- insertion into a python dict / set used as an ordered collection of keys: an existing key keeps its place -/
def Py.addNew {α} [DecidableEq α] (l : List α) (x : α) : List α := if x ∈ l then l else l ++ [x]

/-- the python builtin `sorted(xs, key=str)` (`key` = `str` of an element): a STABLE sort, spelled as the insertion
    sort it is equivalent to — an element goes behind the elements that came before it unless its key is strictly
    smaller. Strings compare by code point in Python as in Lean. It is `C09.sortStr` (`sortedByStr_eq`). -/
def Py.sortedByStr (key : Node → String) : List Node → List Node
  | [] => []
  | x :: xs => ins x (Py.sortedByStr key xs)
where
  ins (x : Node) : List Node → List Node
    | [] => [x]
    | y :: ys => if key y < key x then y :: ins x ys else x :: y :: ys

theorem Py.sortedByStr_eq (key : Node → String) (l : List Node) : Py.sortedByStr key l = sortStr key l := by
  induction l with
  | nil => rfl
  | cons x xs ih =>
    simp only [Py.sortedByStr, sortStr, ih]
    generalize sortStr key xs = ys
    induction ys with
    | nil => rfl
    | cons y ys ih2 => simp only [Py.sortedByStr.ins, insertStr, ih2]

/-- `len(set(xs))` -/
def Py.distinctCount {α} [DecidableEq α] (xs : List α) : Nat := (xs.foldl Py.addNew []).length

/-- `graph.add_node(v, …)`: the attributes (`equation`, `variable_type`) are not part of `C09.Graph` -/
def nxAddNode (g : Graph) (v : Node) : Graph := ⟨Py.addNew g.nodes v, g.edges⟩

/-- `graph.add_edge(u, v)` between existing nodes (the model keeps repeated insertions; its theorems are about the
    edge SET) -/
def nxAddEdge (g : Graph) (u v : Node) : Graph := ⟨g.nodes, g.edges ++ [(u, v)]⟩

/-- `Model` as seen by the `graph` property -/
structure BuildView where
  /-- `self.equations` -/
  equations : List Eqn
  /-- `self._name_to_variable.values()` -/
  variables : List Node
  /-- `equation.atoms(Variable)` (sympy) -/
  atoms : Eqn → List Node
  /-- `self.find_variables_and_derivatives([equation.rhs])`, in set-iteration order (the code sorts it: `Py.sortedByStr`) -/
  refsOf : Eqn → List Node
  /-- `lhs.is_Derivative` -/
  isDerivative : Node → Bool
  /-- `lhs.free_symbols.pop()` of a derivative left-hand side: the state variable -/
  stateOf : Node → Node
  /-- `lhs.variables[0]` of a derivative left-hand side: the free variable -/
  freeOf : Node → Node
  /-- `isinstance(equation.rhs, Quantity)` -/
  rhsIsQuantity : Eqn → Bool
  /-- `str` -/
  key : Node → String

/-- the ODE (state, free variable) of the equation whose left-hand side is `n`, if that is a derivative -/
def odeOfNode (eqs : List Eqn) (n : Node) : Option (Node × Node) := (eqnOf eqs n).bind (·.ode)

/-- `vars` (the model's variables) and `rq` (which right-hand sides are a bare `Quantity`) are free parameters: the
    graph does not depend on them. `atoms` must cover the references (sympy: the variables found by
    `find_variables_and_derivatives([rhs])` are atoms of the equation). In the C09 model a reference that is not a
    left-hand side is a variable (an undefined derivative on a right-hand side - python: `AttributeError` at `.type` -
    is not distinguished from an undefined variable). -/
def buildView (key : Node → String) (eqs : List Eqn) (vars : List Node) (rq : Eqn → Bool) : BuildView where
  equations := eqs
  variables := vars
  atoms e := (match e.ode with | some (s, f) => [s, f] | none => [e.lhs]) ++ e.refs
  refsOf e := e.refs
  isDerivative n := (odeOfNode eqs n).isSome
  stateOf n := ((odeOfNode eqs n).getD (0, 0)).1
  freeOf n := ((odeOfNode eqs n).getD (0, 0)).2
  rhsIsQuantity := rq
  key := key

end Cellml.Tie.PGraph
