import Cellml.Tie.SingDetView

/-! # What the translated rest of `_get_singularity` sees (core Lean only; continues `Tie/SingDetView.lean`)

    `expr` is the canonical product as the hand model holds it: the list of classified factors
    `normalise (classifyAll 0 args) : List (C12.Base × Int)`. The leaves below are SymPy read on those classes; the
    control flow around them (partition, guard, orientation loop, the two patterns and their order, `Z > 0`, the three
    `_solve_real` calls, the singleton check, the recording loop with its in-place update) is translated from the source
    (`harness/code_specs/singdet3.py`). The matcher for `±(Z·exp U − 1)`, `log` and `solveset` are PARAMETERS of the
    generated functions (arbitrary leaves); `Tie/SingDet3.lean` instantiates them with the model's reading. -/

namespace Cellml.Tie.PSing3
open C12 Cellml.Tie.PSing2

/-- the bindings of a successful `fp2.match(±(exp(U)·Z − 1))`: `U_wildcard` (affine, holds `V`), `Z_wildcard` -/
structure BindU where
  U : Aff
  Z : Rat
deriving DecidableEq, Repr

/-- `find_U[U_wildcard]`, `find_U[Z_wildcard]` (only read where python has checked `find_U` truthy) -/
def getU (m : Option BindU) : Aff := (m.map (·.U)).getD (0, 0)
def getZ (m : Option BindU) : Rat := (m.map (·.Z)).getD 0

/-- `subs_parsed_math_funcs(Z).xreplace({s: 1.0 for s in Z.free_symbols})`: `Z` is a number here -/
def evalAtOnes (z : Rat) : Rat := z

/-- `U + log Z`, `u − U_offset`, `u + U_offset` on `k·V + c`: the number goes to the offset -/
instance : HAdd Aff Rat Aff := ⟨fun u r => (u.1, u.2 + r)⟩
instance : HSub Aff Rat Aff := ⟨fun u r => (u.1, u.2 - r)⟩

@[simp] theorem aff_add (k c r : Rat) : ((k, c) : Aff) + r = (k, c + r) := rfl
@[simp] theorem aff_sub (k c r : Rat) : ((k, c) : Aff) - r = (k, c - r) := rfl

/-- the model's reading of `fp2.match(exp(U)·(−Z) + 1.0)`: the class `1 − exp(k·V + c)` with exponent one, `Z = 1` -/
def matchNegM (f : Fac) : Option BindU :=
  if f.2 == 1 then
    match f.1 with
    | .em k c false => some ⟨(k, c), 1⟩
    | _ => none
  else none

/-- the model's reading of `fp2.match(exp(U)·Z − 1.0)`: the class `exp(k·V + c) − 1` with exponent one, `Z = 1` -/
def matchPosM (f : Fac) : Option BindU :=
  if f.2 == 1 then
    match f.1 with
    | .em k c true => some ⟨(k, c), 1⟩
    | _ => none
  else none

/-- `fp2.has(exp_function)` -/
def hasExpF (f : Fac) : Bool := baseHasExp f.1
/-- `expr.has(exp_function)` -/
def anyHasExp (fs : List Fac) : Bool := fs.any (fun f => baseHasExp f.1)
/-- `expr.args` -/
def prodArgs (fs : List Fac) : List Fac := fs

/-- `isinstance(a, Pow)`: SymPy writes an exponent other than one as a `Pow` -/
def facIsPow (f : Fac) : Bool := f.2 != 1
/-- `a.args[1].evalf()` (an integer: it never raises) -/
def facExpQ (f : Fac) : Rat := (f.2 : Int)
/-- `a.args[0]`, `a.args[1]`, `Pow(b, n)` -/
def facBase (f : Fac) : Base := f.1
def facExpn (f : Fac) : Int := f.2
def mkFac (b : Base) (n : Int) : Fac := (b, n)

/-- `Mul(*side)`, the whole numerator / denominator as one more candidate. `Mul(*[x])` IS `x`. A number times ONE affine
    factor (exponent one) is affine again (`Mul(2, V + 1) = 2·V + 2`, and `2·V` is a `Mul`): it matches `P·u` like the
    factor does. Any other product of two or more canonical factors is a `Mul` that is neither a sum `±(Z·exp U − 1)`,
    nor affine, nor an `exp(…)`: class `opq` ("never matches a pattern"), carrying `has(exp)` of its factors. -/
def mulSide (side : List Fac) : Fac :=
  match side with
  | [f] => f
  | [(.const q, 1), (.aff k c, 1)] => if q == 0 then (.const 0, 1) else (.aff (q * k) (q * c), 1)
  | [(.aff k c, 1), (.const q, 1)] => if q == 0 then (.const 0, 1) else (.aff (q * k) (q * c), 1)
  | fs => (.opq 0 (anyHasExp fs), 1)

/-- the points of a solution set as python iterates / counts them (`for sp in …`, `len(…)`, `tuple(…)[0]`); an
    `Intersection` that `_solve_real` could not unwrap is not a finite set (python raises on it): outside the model -/
def _root_.Cellml.Tie.PSing2.SolveSet.pts : SolveSet → List Rat
  | .plain l => l
  | .inter _ _ => []

def firstPt (l : List Rat) : Rat := l.headD 0

/-- `len(v.free_symbols)`: the bounds of the fragment are numbers -/
def freeSymCount (_ : Rat) : Nat := 0

/-- a recorded `[Vmin, Vmax, sp]` as the returned triple (floats instead of `Quantity` dummies) -/
def winTriple (w : Win Rat) : Rat × Rat × Rat := (w.vmin, w.vmax, w.sp)

end Cellml.Tie.PSing3
