import Cellml.Basic.Sexp
import Cellml.C12.Expr
import Cellml.C12.Window
import Cellml.C12.Piecewise
import Cellml.C12.Detect
import Cellml.C12.Fix
import Cellml.C12.Traverse

/-! Channel C12:
    `(C12 (delta d) (rev b) (eqs (name rhs)…) (order name…) (exclude name…) (probe (name v…)…))`
      → `((unsupported name…) (eqs (name changed (wins (lo hi)…) tree)…) (probe (name (v dec…)…)…))`.
    `eqs` is `Model.equations` (in order), `order` the sorted graph. In the reply `eqs` is `Model.equations` after the
    call; `wins` are the ranges of the generated piecewises (outermost first); `tree` the new right-hand side; for each
    probe voltage the list `dec…` holds, for every generated piecewise met while evaluating the tree at that voltage
    (arguments left to right; inside a range: the function at the lower bound, then at the upper bound), `out` or
    `(in t)` with `t` the interpolation coefficient. -/
namespace C12
open Sexp Expr

partial def parseExpr : Sexp → Option Expr
  | .atom "V" => some .volt
  | .list [.atom "num", q] => .num <$> rat? q
  | .list [.atom "var", n] => .var <$> atomOf? n
  | .list (.atom "add" :: as) => .add <$> as.mapM parseExpr
  | .list (.atom "mul" :: as) => .mul <$> as.mapM parseExpr
  | .list [.atom "pow", b, n] => do
      let b' ← parseExpr b
      let n' ← int? n
      pure (.pow b' n')
  | .list [.atom "exp", a] => .exp <$> parseExpr a
  | .list [.atom "pw", lo, hi, f] => do
      let l ← rat? lo
      let h ← rat? hi
      let f' ← parseExpr f
      pure (.pw l h f')
  | .list (.atom "fn" :: n :: as) => do
      let n' ← atomOf? n
      let as' ← as.mapM parseExpr
      pure (.fn n' as')
  | _ => none

mutual
def toSexp : Expr → Sexp
  | .num q => .list [.atom "num", ofRat q]
  | .volt => .atom "V"
  | .var n => .list [.atom "var", .str n]
  | .add as => .list (.atom "add" :: toSexpL as)
  | .mul as => .list (.atom "mul" :: toSexpL as)
  | .pow b n => .list [.atom "pow", toSexp b, ofInt n]
  | .exp a => .list [.atom "exp", toSexp a]
  | .pw lo hi f => .list [.atom "pw", ofRat lo, ofRat hi, toSexp f]
  | .fn n as => .list (.atom "fn" :: .str n :: toSexpL as)
def toSexpL : List Expr → List Sexp
  | [] => []
  | a :: as => toSexp a :: toSexpL as
end

mutual
/-- the ranges of the generated piecewises, outermost first, arguments left to right -/
def wins : Expr → List Sexp
  | .num _ | .volt | .var _ => []
  | .add as | .mul as | .fn _ as => winsL as
  | .pow b _ => wins b
  | .exp a => wins a
  | .pw lo hi f => .list [ofRat lo, ofRat hi] :: wins f
def winsL : List Expr → List Sexp
  | [] => []
  | a :: as => wins a ++ winsL as
end

mutual
/-- the decisions taken while evaluating the tree at voltage `v` -/
def decs (v : Rat) : Expr → List Sexp
  | .num _ | .volt | .var _ => []
  | .add as | .mul as | .fn _ as => decsL v as
  | .pow b _ => decs v b
  | .exp a => decs v a
  | .pw lo hi f =>
      if lo ≤ v ∧ v ≤ hi then .list [.atom "in", ofRat (coeff v lo hi)] :: (decs lo f ++ decs hi f)
      else .atom "out" :: decs v f
def decsL (v : Rat) : List Expr → List Sexp
  | [] => []
  | a :: as => decs v a ++ decsL v as
end

mutual
/-- some product inside the expression is outside the fragment on which `_get_singularity` is modelled -/
def outside (δ : Rat) : Expr → Bool
  | .num _ | .volt | .var _ => false
  | .add as | .fn _ as => outsideL δ as
  | .mul as => (anyExp as && (detect? δ false as).isNone) || outsideL δ as
  | .pow b _ => outside δ b
  | .exp a => outside δ a
  | .pw _ _ f => outside δ f
def outsideL (δ : Rat) : List Expr → Bool
  | [] => false
  | a :: as => outside δ a || outsideL δ as
end

def parseEqn : Sexp → Option Eqn
  | .list [n, r] => do
      let n' ← atomOf? n
      let r' ← parseExpr r
      pure ⟨n', r'⟩
  | _ => none

def findEq (eqs : List Eqn) (n : String) : Option Eqn := eqs.find? (fun e => e.lhs == n)

def handle (args : List Sexp) : Sexp :=
  match args with
  | [.list [.atom "delta", d], .list [.atom "rev", .atom rv], .list (.atom "eqs" :: es), .list (.atom "order" :: os),
     .list (.atom "exclude" :: xs), .list (.atom "probe" :: ps)] =>
      match rat? d, es.mapM parseEqn, os.mapM atomOf?, xs.mapM atomOf? with
      | some δ, some eqs, some order, some excl =>
          let ordered := order.filterMap (findEq eqs)
          let fix := removeSing (detect δ (rv == "true"))
          let st := traverse fix excl ordered eqs
          -- the right-hand sides the detector saw: replay the traversal's substitution for the support check
          let unsup := (ordered.filter (fun e => outside δ (subst (traverse fix excl (ordered.takeWhile (fun e' => e'.lhs != e.lhs)) eqs).env e.rhs))).map (fun e => Sexp.str e.lhs)
          let changed (n : String) : Bool :=
            match findEq eqs n, findEq st.eqs n with
            | some a, some b => Sexp.toString (toSexp a.rhs) != Sexp.toString (toSexp b.rhs)
            | _, _ => true
          let eqOut := st.eqs.map (fun e =>
            Sexp.list [.str e.lhs, ofBool (changed e.lhs), .list (.atom "wins" :: wins e.rhs), toSexp e.rhs])
          let probeOut := ps.map (fun p =>
            match p with
            | .list (n :: vs) =>
                match atomOf? n with
                | some n' =>
                    match findEq st.eqs n' with
                    | some e => Sexp.list (.str n' :: vs.map (fun v =>
                        match rat? v with
                        | some q => Sexp.list (v :: decs q e.rhs)
                        | none => .atom "bad-voltage"))
                    | none => .list [.str n', .atom "no-such-equation"]
                | none => .atom "bad-probe"
            | _ => .atom "bad-probe")
          .list [.list (.atom "unsupported" :: unsup), .list (.atom "eqs" :: eqOut), .list (.atom "probe" :: probeOut)]
      | _, _, _, _ => .atom "bad-request"
  | _ => .atom "bad-request"

end C12
