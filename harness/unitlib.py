"""Unit families: generation, construction on the real UnitStore, wire format, and an independent exact oracle.

A family is JSON: {'stores': [None | k (share registry with store k)], 'defs': [def...]},
def = {'kind': 'base', 'store': s, 'name': n} | {'kind': 'def', 'store': s, 'name': n, 'elems': [elem...]},
elem = {'units': name, 'prefix': str?, 'exponent': str?, 'multiplier': str?, 'offset': str?}.
"""
from fractions import Fraction

import mpmath

from common import Str

mpmath.mp.dps = 50

# CellML 1.1 section 5.2.1 table 2, written out from the specification (independent of cellml_units.txt):
# name -> (power of ten of the SI scale, {SI base unit: exponent}); 'rad' counts the dimensionless root unit radian.
SI = {
    'ampere': (0, {'A': 1}), 'candela': (0, {'cd': 1}), 'kelvin': (0, {'K': 1}), 'kilogram': (0, {'kg': 1}),
    'meter': (0, {'m': 1}), 'metre': (0, {'m': 1}), 'mole': (0, {'mol': 1}), 'second': (0, {'s': 1}),
    'becquerel': (0, {'s': -1}), 'coulomb': (0, {'A': 1, 's': 1}),
    'farad': (0, {'A': 2, 's': 4, 'kg': -1, 'm': -2}), 'gray': (0, {'m': 2, 's': -2}),
    'henry': (0, {'kg': 1, 'm': 2, 's': -2, 'A': -2}), 'hertz': (0, {'s': -1}),
    'joule': (0, {'kg': 1, 'm': 2, 's': -2}), 'lumen': (0, {'cd': 1, 'rad': 2}),
    'lux': (0, {'cd': 1, 'm': -2, 'rad': 2}), 'newton': (0, {'kg': 1, 'm': 1, 's': -2}),
    'ohm': (0, {'kg': 1, 'm': 2, 's': -3, 'A': -2}), 'pascal': (0, {'kg': 1, 'm': -1, 's': -2}),
    'radian': (0, {'rad': 1}), 'siemens': (0, {'kg': -1, 'm': -2, 's': 3, 'A': 2}),
    'sievert': (0, {'m': 2, 's': -2}), 'steradian': (0, {'rad': 2}),
    'tesla': (0, {'kg': 1, 's': -2, 'A': -1}), 'volt': (0, {'kg': 1, 'm': 2, 's': -3, 'A': -1}),
    'watt': (0, {'kg': 1, 'm': 2, 's': -3}), 'weber': (0, {'kg': 1, 'm': 2, 's': -2, 'A': -1}),
    'katal': (0, {'mol': 1, 's': -1}), 'dimensionless': (0, {}), 'gram': (-3, {'kg': 1}),
    'liter': (-3, {'m': 3}), 'litre': (-3, {'m': 3}),
}
SI_PREFIX = {'yotta': 24, 'zetta': 21, 'exa': 18, 'peta': 15, 'tera': 12, 'giga': 9, 'mega': 6, 'kilo': 3, 'hecto': 2,
             'deka': 1, 'deca': 1, 'deci': -1, 'centi': -2, 'milli': -3, 'micro': -6, 'nano': -9, 'pico': -12,
             'femto': -15, 'atto': -18, 'zepto': -21, 'yocto': -24}
PINT_BASE = {'A': 'ampere', 'cd': 'candela', 'K': 'kelvin', 'kg': 'kilogram', 'm': 'meter', 'mol': 'mole', 's': 'second',
             'rad': 'radian'}

BUILTIN_POOL = ['volt', 'second', 'metre', 'meter', 'ampere', 'kilogram', 'gram', 'litre', 'liter', 'mole', 'farad',
                'siemens', 'coulomb', 'joule', 'newton', 'hertz', 'kelvin', 'candela', 'ohm', 'pascal', 'watt',
                'weber', 'tesla', 'henry', 'katal', 'becquerel', 'gray', 'sievert', 'lumen', 'lux', 'radian',
                'steradian']
EXPONENTS = ['1', '-1', '2', '-2', '3', '0.5', '-0.5', '1.5', '2.0', '-3']
MULTIPLIERS = ['1000', '0.001', '2.54', '60', '0.5', '1e-3', '3600', '1.000001', '12', '0.01', '1e3', '2.5e-2', '1']
NAMES = ['mV', 'ms', 'uA', 'pF', 'cm2', 'mM', 'per_ms', 'uA_per_cm2', 'nS', 'litre_per_s', 'kHz', 'a', 'b_1', '_x',
         'A_per_F', 'metre_per_second', 'voltage', 'store1_q', 'Unit9', 'e', 'pi', 'x', 'in', 'second2', 'u_',
         'milli', 'newtons', 'k', 'J_per_mol_K', 'percent', 'halves', 'widget', 'gadget', 'blob']


def dim_add(a, b, k=1):
    out = dict(a)
    for n, e in b.items():
        out[n] = out.get(n, 0) + e * k
        if out[n] == 0:
            del out[n]
    return out


RECIPES = [
    [[('volt', '1')], [('joule', '1'), ('coulomb', '-1')], [('watt', '1'), ('ampere', '-1')],
     [('weber', '1'), ('second', '-1')]],
    [[('second', '1')], [('hertz', '-1')], [('becquerel', '-1')]],
    [[('litre', '1')], [('metre', '3')], [('liter', '1')], [('meter', '2'), ('metre', '1')]],
    [[('ampere', '1'), ('metre', '-2')], [('coulomb', '1'), ('second', '-1'), ('meter', '-2')]],
    [[('siemens', '1')], [('ohm', '-1')], [('ampere', '1'), ('volt', '-1')]],
    [[('mole', '1'), ('litre', '-1')], [('katal', '1'), ('second', '1'), ('metre', '-3')]],
    [[('farad', '1')], [('coulomb', '1'), ('volt', '-1')]],
    [[('joule', '1')], [('newton', '1'), ('metre', '1')], [('watt', '1'), ('second', '1')],
     [('pascal', '1'), ('metre', '3')]],
    [[('gram', '1')], [('kilogram', '1')]],
    [[('metre', '1')], [('metre', '2'), ('meter', '-1')], [('litre', '0.5'), ('metre', '-0.5')]],
    [[('ampere', '1'), ('farad', '-1')], [('volt', '1'), ('second', '-1')]],
    [[('dimensionless', '1')]],
    [[('tesla', '1')], [('weber', '1'), ('metre', '-2')]],
    [[('gray', '1')], [('sievert', '1')], [('joule', '1'), ('kilogram', '-1')]],
    [[('lux', '1')], [('lumen', '1'), ('metre', '-2')]],
    [[('henry', '1')], [('weber', '1'), ('ampere', '-1')]],
    [[('kelvin', '1')]], [[('candela', '1')]], [[('steradian', '1')], [('radian', '2')]],
]


SMALL_SCALES = False     # set by gen_family(small_scales=True): prefixes within 10^±6 (expression families raise units
                         # to the 9th power and pint accumulates scales in doubles: 1e-324 underflows)


def _decorate(rng, e, p=0.5):
    if rng.random() < p:
        if SMALL_SCALES:
            e['prefix'] = rng.choice([k for k, v in SI_PREFIX.items() if abs(v) <= 6]) if rng.random() < 0.75 \
                else str(rng.randint(-6, 6))
        else:
            e['prefix'] = rng.choice(list(SI_PREFIX)) if rng.random() < 0.75 else str(rng.randint(-12, 12))
    if rng.random() < 0.35:
        e['multiplier'] = rng.choice(MULTIPLIERS)
    if rng.random() < 0.04:
        e['offset'] = '0'
    return e


def gen_family(rng, n_units=None, n_stores=None, allow_bad=False, mix_dimless=False, recipes=None, with_base=None,
               small_scales=False):
    global SMALL_SCALES
    SMALL_SCALES = small_scales
    try:
        return _gen_family(rng, n_units, n_stores, allow_bad, mix_dimless, recipes, with_base)
    finally:
        SMALL_SCALES = False


def _gen_family(rng, n_units=None, n_stores=None, allow_bad=False, mix_dimless=False, recipes=None, with_base=None):
    """Units come in clusters of equal dimension (different spellings, prefixes, multipliers, powers of one another),
    so that most queried pairs are convertible with a factor different from one."""
    ns = n_stores or rng.choice([1, 1, 2, 2, 3])
    stores = [None]
    for s in range(1, ns):
        stores.append(rng.choice([None, rng.randrange(s), rng.randrange(s)]))
    n = n_units or rng.randint(8, 12)
    names = rng.sample(NAMES, min(n, len(NAMES)))
    if ns > 1 and rng.random() < 0.6:
        # the same user name defined in several stores with different meanings (namespaces must keep them apart)
        for _ in range(rng.choice([1, 2, 3])):
            i, j = rng.randrange(len(names)), rng.randrange(len(names))
            names[j] = names[i]
    n_clusters = rng.choice([2, 2, 3])
    clusters = []
    for recipe in rng.sample(recipes or RECIPES, n_clusters):
        clusters.append({'recipe': recipe, 'members': []})   # members: (store, name) of this dimension
    if (rng.random() < 0.35) if with_base is None else with_base:
        clusters.append({'recipe': None, 'members': []})      # a new base unit and its derivatives
    defs = []
    taken = set()

    def free_store(name, preferred=None):
        cands = [s for s in range(ns) if (s, name) not in taken]
        if preferred is not None and preferred in cands:
            return preferred
        return rng.choice(cands) if cands else None

    for name in names:
        cl = rng.choice(clusters)
        if all((s, name) in taken for s in range(ns)):
            continue
        if cl['recipe'] is None and not cl['members']:
            s = free_store(name)
            taken.add((s, name))
            defs.append({'kind': 'base', 'store': s, 'name': name})
            cl['members'].append((s, name))
            continue
        mine = cl['members']
        r = rng.random()
        if mine and r < 0.45:
            # in terms of an earlier unit of the same dimension (same store): prefix / multiplier / sqrt of square
            s, ref = rng.choice(mine)
            kind = rng.random()
            if kind < 0.6:
                elems = [_decorate(rng, {'units': ref}, 0.7)]
            elif kind < 0.8:
                elems = [_decorate(rng, {'units': ref, 'exponent': '2'}), {'units': ref, 'exponent': '-1'}]
            else:
                elems = [_decorate(rng, {'units': ref, 'exponent': rng.choice(['0.5', '1.5'])}),
                         _decorate(rng, {'units': ref, 'exponent': None})]
                elems[1]['exponent'] = str(1 - float(elems[0]['exponent']))
        elif cl['recipe'] is None:
            s, ref = rng.choice(mine)
            elems = [_decorate(rng, {'units': ref}, 0.8)]
        else:
            s = rng.randrange(ns)
            spelling = rng.choice(cl['recipe'])
            elems = []
            for u, ex in spelling:
                e = {'units': u}
                if ex != '1' or rng.random() < 0.1:
                    e['exponent'] = ex
                elems.append(_decorate(rng, e, 0.35))
            if all(e['units'] == 'dimensionless' for e in elems) and rng.random() < 0.3:
                elems.append(_decorate(rng, {'units': 'dimensionless'}, 0.3))
        if mix_dimless and rng.random() < 0.3:
            elems.append({'units': 'dimensionless', 'multiplier': rng.choice(MULTIPLIERS)})
        if allow_bad and rng.random() < 0.08:
            elems.append({'units': rng.choice(['nosuchunit', 'celsius'] + NAMES)})
        if (s, name) in taken:
            if any(e['units'] not in SI for e in elems):
                continue          # refers to user units of store s: cannot move to another store
            s = free_store(name)
        taken.add((s, name))
        defs.append({'kind': 'def', 'store': s, 'name': name, 'elems': elems})
        cl['members'].append((s, name))
    return {'stores': stores, 'defs': defs}


# ------------------------------------------------------------------------------------------ wire format
def elem_sx(e):
    out = [e['units']]
    for k in ('prefix', 'exponent', 'multiplier', 'offset'):
        if k in e:
            out += [':' + k, Str(e[k])]
    return out


def family_sx(fam):
    stores = [[i, 'new'] if s is None else [i, 'share', s] for i, s in enumerate(fam['stores'])]
    defs = []
    for d in fam['defs']:
        if d['kind'] == 'base':
            defs.append(['base', d['store'], Str(d['name'])])
        else:
            defs.append(['def', d['store'], Str(d['name']), [elem_sx(e) for e in d['elems']]])
    return ['stores'] + stores, ['defs'] + defs


def unit_sx(u):
    """u: list of (store, name, exponent-string)"""
    return [[s, Str(n), Fraction(e)] for (s, n, e) in u]


def scale_value(sexp):
    """(scale (p e) ...) -> mpf"""
    v = mpmath.mpf(1)
    for p, e in sexp[1:]:
        q = Fraction(e)
        v *= mpmath.power(mpmath.mpf(int(p)), mpmath.mpf(q.numerator) / q.denominator)
    return v


def close(a, b, rel=1e-9):
    a, b = mpmath.mpf(a), mpmath.mpf(b)
    return abs(a - b) <= rel * max(abs(a), abs(b))


# ------------------------------------------------------------------------------------------ implementation side
def build_impl(fam, stores=None):
    """Create the stores (unless given) and define the units on the real code. Returns (stores, outcomes)."""
    from cellmlmanip.parser import Parser
    from cellmlmanip.units import UnitStore
    if stores is None:
        stores = []
        for s in fam['stores']:
            stores.append(UnitStore() if s is None else UnitStore(stores[s]))
    outcomes = []
    for d in fam['defs']:
        st = stores[d['store']]
        try:
            if d['kind'] == 'base':
                st.add_base_unit(d['name'])
            else:
                expr = Parser._make_pint_unit_definition(None, d['name'], d['elems'])
                st.add_unit(d['name'], expr)
            outcomes.append('ok')
        except Exception as e:
            outcomes.append('err:' + type(e).__name__)
    return stores, outcomes


def impl_unit(stores, u):
    """u: list of (store, name, exponent-string) -> pint Unit"""
    out = None
    for s, n, e in u:
        x = stores[s].get_unit(n)
        q = Fraction(e)
        x = x ** (int(q) if q.denominator == 1 else float(q))
        out = x if out is None else out * x
    return out


def parse_base_format(text):
    """'0.001 kilogram * meter ** 2 / second ** 3' -> (float, {name: Fraction})"""
    mag, _, rest = text.partition(' ')
    out = {}
    rest = rest.strip()
    if rest and rest != 'dimensionless':
        sign = 1
        toks = rest.replace('**', '^').split()
        i = 0
        while i < len(toks):
            t = toks[i]
            if t == '*':
                sign = 1
            elif t == '/':
                sign = -1
            elif t == '1':
                pass
            else:
                e = Fraction(1)
                if i + 2 < len(toks) and toks[i + 1] == '^':
                    e = Fraction(toks[i + 2]).limit_denominator(10 ** 6)
                    i += 2
                out[t] = out.get(t, 0) + sign * e
            i += 1
    return float(mag), {k: v for k, v in out.items() if v != 0}


# ------------------------------------------------------------------------------------------ independent oracle
class Sem:
    """What a unit means according to the CellML specification: scale to SI (mpf) and SI/base dimension exponents."""
    def __init__(self, scale, dims):
        self.scale, self.dims = scale, dims


def oracle_family(fam, outcomes):
    """name -> Sem for every successfully defined user unit, computed from the construction alone."""
    sem = {}   # (registry-root, store, name)
    for d, out in zip(fam['defs'], outcomes):
        if out != 'ok':
            continue
        s = d['store']
        if d['kind'] == 'base':
            sem[(s, d['name'])] = Sem(mpmath.mpf(1), {'[%d:%s]' % (s, d['name']): Fraction(1)})
            continue
        scale, dims = mpmath.mpf(1), {}
        for e in d['elems']:
            ref = e['units']
            if ref in SI:
                p10, dd = SI[ref]
                rs, rd = mpmath.power(10, p10), {k: Fraction(v) for k, v in dd.items()}
            elif (s, ref) in sem:
                rs, rd = sem[(s, ref)].scale, sem[(s, ref)].dims
            else:
                return None  # construction refers to something undefined: no oracle
            if 'prefix' in e:
                p = SI_PREFIX.get(e['prefix'])
                if p is None:
                    p = int(e['prefix'])
                rs = rs * mpmath.power(10, p)
            ex = Fraction(e.get('exponent', '1'))
            rs = mpmath.power(rs, mpmath.mpf(ex.numerator) / ex.denominator)
            rd = {k: v * ex for k, v in rd.items()}
            if 'multiplier' in e:
                m = Fraction(e['multiplier'])
                rs = rs * mpmath.mpf(m.numerator) / m.denominator
            scale = scale * rs
            dims = dim_add(dims, rd)
        sem[(s, d['name'])] = Sem(scale, dims)
    return sem


def sem_of(sem, u):
    scale, dims = mpmath.mpf(1), {}
    for s, n, e in u:
        if n in SI:
            p10, dd = SI[n]
            x = Sem(mpmath.power(10, p10), {k: Fraction(v) for k, v in dd.items()})
        else:
            x = sem[(s, n)]
        q = Fraction(e)
        scale *= mpmath.power(x.scale, mpmath.mpf(q.numerator) / q.denominator)
        dims = dim_add(dims, x.dims, q)
    return Sem(scale, dims)


def dims_close(a, b, tol=6e-6):
    """exponent dicts equal up to the 6 significant digits pint prints for non-integer exponents (1.296875 is shown as
    1.29688: relative error up to 5e-6)"""
    keys = set(a) | set(b)
    for k in keys:
        x, y = float(a.get(k, 0)), float(b.get(k, 0))
        if abs(x - y) > tol * max(abs(x), abs(y)):
            return False
    return True


def physical_dims(d):
    """dimension proper: radian does not count"""
    return {k: v for k, v in d.items() if k != 'rad'}
