/-! Spike for C14: the integer rounding core of decimal → binary64 (nearest, ties to even). -/

/-- nearest integer to `n / d`, ties to even -/
def roundDivEven (n d : Nat) : Nat :=
  let q := n / d
  let r := n % d
  if 2 * r < d then q
  else if 2 * r > d then q + 1
  else if q % 2 = 0 then q else q + 1

/-- the result is within half a unit: `|n - result·d| · 2 ≤ d` (stated without subtraction) -/
theorem roundDivEven_near (n d : Nat) (hd : 0 < d) :
    2 * n ≤ 2 * (roundDivEven n d) * d + d ∧ 2 * (roundDivEven n d) * d ≤ 2 * n + d := by
  have h1 := Nat.div_add_mod n d        -- d * (n / d) + n % d = n
  have h2 := Nat.mod_lt n hd
  unfold roundDivEven
  simp only
  generalize hq : n / d = q at *
  generalize hr : n % d = r at *
  have hmul : 2 * q * d = 2 * (d * q) := by rw [Nat.mul_assoc, Nat.mul_comm q d]
  have hmul' : 2 * (q + 1) * d = 2 * (d * q) + 2 * d := by
    rw [Nat.mul_assoc, Nat.add_mul, Nat.mul_comm q d]; omega
  split
  · rw [hmul]; omega
  · split
    · rw [hmul']; omega
    · split <;> first | (rw [hmul]; omega) | (rw [hmul']; omega)

/-- in a tie the result is even -/
theorem roundDivEven_tie_even (n d : Nat) (h : 2 * (n % d) = d) : roundDivEven n d % 2 = 0 := by
  unfold roundDivEven
  simp only
  have : ¬ (2 * (n % d) < d) := by omega
  have h' : ¬ (2 * (n % d) > d) := by omega
  simp only [this, h', if_false]
  split <;> omega

/-- an exactly representable value is returned unchanged: rounding is idempotent -/
theorem roundDivEven_exact (q d : Nat) (hd : 0 < d) : roundDivEven (q * d) d = q := by
  unfold roundDivEven
  simp [Nat.mul_div_cancel _ hd, Nat.mul_mod_left, hd]

#eval (roundDivEven 5 2, roundDivEven 7 2, roundDivEven 9 4, roundDivEven 11 4, roundDivEven 10 4)
#print axioms roundDivEven_near
