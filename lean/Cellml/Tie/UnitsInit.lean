import Cellml.Generated.Code.UnitsInit
import Cellml.Iso.Namespace

set_option linter.unusedSimpArgs false

/-! # Tie: `UnitStore.__init__` (generated from the source) = `Units.Wire.World.newStore` (the process model of C16:
    `Iso.step w (.newStore share)`).

    The generated constructor is run on the process state of the hand model: `UnitStore._next_id` is the number of
    stores created so far, the heap of registry objects is `w.regs`, and the argument `store` is the object of the
    store `share` points at (`None` when `share` is `none` or names no store, as in the model). -/

namespace Cellml.Tie.PUnits
open Units Units.Wire Cellml.Gen

/-- the argument `store` of the constructor call the model's `newStore share` stands for -/
def shareArg (w : World) (share : Option Nat) : Option StoreRef :=
  (share.bind (fun s => w.stores[s]?)).map storeRef

/-- For every process state and every `share`: the constructor succeeds, the object it builds is the object of a new
    store `p` = (id = number of stores so far, no user names; registry reference), the store counter is incremented,
    and store list and registry heap afterwards are exactly those of `World.newStore`. The result does not depend on
    the uninitialised `self0`. -/
theorem init_tie (w : World) (share : Option Nat) (self0 : StoreRef) :
    ∃ p : Store × Nat,
      UnitsInit.init self0 (shareArg w share) w.stores.length w.regs =
        .ok (storeRef p, (w.newStore share).stores.length, (w.newStore share).regs) ∧
      (w.newStore share).stores = w.stores ++ [p] ∧
      p.1 = { id := w.stores.length, known := [] } := by
  unfold UnitsInit.init shareArg World.newStore
  cases h : share.bind (fun s => w.stores[s]?) with
  | none =>
    refine ⟨({ id := w.stores.length, known := [] }, w.regs.length), ?_, ?_, rfl⟩
    · simp [newRegistry, storeRef, pySet, PyStr.str, bind, Except.bind, pure, Except.pure]
    · simp
  | some q =>
    obtain ⟨st, ri⟩ := q
    refine ⟨({ id := w.stores.length, known := [] }, ri), ?_, ?_, rfl⟩
    · simp [derefStore, storeRef, pySet, PyStr.str, bind, Except.bind, pure, Except.pure]
    · simp

/-- the prefix the constructor stores is the one `Units.prefixName` uses (the `StoreObj` view of the other methods
    carries the same text) -/
theorem init_prefix (p : Store × Nat) (name : String) (h : Cellml.Gen.cellmlUnits.contains name = false) :
    (storeRef p)._prefix ++ name = Units.prefixName p.1.id name := by
  have h' : name ∉ Cellml.Gen.cellmlUnits := by simpa using h
  simp [storeRef, Units.prefixName, h']

end Cellml.Tie.PUnits
