"""Code-translator spec: Model.get_equations_for (cellmlmanip/model.py) -> lean/Cellml/Generated/Code/GraphEqs.lean,
tied to C09.getEquationsFor in lean/Cellml/Tie/GraphEqs.lean.

Leaves bound here (none of them is decided inside get_equations_for):
 * the two cached properties self.graph / self.graph_with_sympy_numbers (tied separately: graphnum.py, graphbuild.py);
 * the three networkx calls (sort, ancestors, pred) = the model's lexTopo / ancestors / preds with networkx's
   exception for a node that is not in the graph;
 * `set()` / set.add / set.update: the required set is kept as a list (only membership is ever asked);
 * the sort is a generator: it is bound to a suspended computation and forced where the `for` iterates over it (the
   loop body cannot raise and has no effect but eqs.append, so raising NetworkXUnfeasible at the start or at the end of
   the iteration is the same behaviour);
 * graph.nodes[v]['equation'].
"""

GROUP = {'name': 'GraphEqs',
 'imports': ['Cellml.Tie.GraphView'],
 'header': 'open Cellml.Tie.PGraph\nopen C09',
 'functions': [{'file': 'cellmlmanip/model.py',
                'func': 'Model.get_equations_for',
                'lean_name': 'getEquationsFor',
                'signature': '(self : EqsView) (variables : List Node) (recurse strip_units : Bool) : '
                             'Except PyErr (List (Option Eqn))',
                'mutable': ['required_variables', 'eqs'],
                'patterns': [('self.graph_with_sympy_numbers', '← self.graphNum'),
                             ('self.graph', '← self.graph'),
                             ('nx.lexicographical_topological_sort(graph, key=str)', '(nxLexTopo self.key graph)'),
                             ('sorted_variables', '← sorted_variables'),
                             ('set()', '([] : List Node)'),
                             ('nx.ancestors(graph, __A)', '← nxAncestors graph {A}'),
                             ('graph.pred[__A]', '← nxPred graph {A}'),
                             ("graph.nodes[__A]['equation']", '(self.equationOf {A})')],
                'stmt_patterns': [('required_variables.add(__A)', 'required_variables := required_variables ++ [{A}]'),
                                  ('required_variables.update(__A)',
                                   'required_variables := required_variables ++ {A}'),
                                  ('eqs.append(__A)', 'eqs := eqs ++ [{A}]')]}]}
