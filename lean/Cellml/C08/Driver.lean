import Cellml.Basic.Sexp
/-! Channel C08 of the model driver (stub: not built yet). -/
namespace C08
def handle (_args : List Sexp) : Sexp := .atom "not-implemented"
end C08
