import Cellml.Tie.LoaderView
import Cellml.Generated.Code.LoaderSym
import Cellml.Generated.Code.ModelState

/-! # What the translated `Parser._add_maths` sees (package MathsWalk: C01 / C17)

    The generated code (`Cellml/Generated/Code/MathsWalk.lean`) is the whole of `_add_maths`: the loop over
    `component_variables`, `findall(<math>)`, the guard `if math_elements:`, the prefix, the construction
    `Transpiler(symbol_generator=…, number_generator=…)`, the loop over the `<math>` elements, `parse_tree`, and
    `self.model.add_equation(expr)` for every equation that comes back. Its leaves:

    * the XML of a component as far as `_add_maths` reads it (`MCompElem`, `MathElem`, `MEq`);
    * the closure `symbol_generator`: the GENERATED `Gen.LoaderSym.symbolGenerator` applied to the three names it captures
      (`prefix`, `variable_to_symbol`, `connected_variable_mapping`), its `while` cut at `whileBound` iterations;
    * the lambda `number_generator`: translated (`createQuantity x (← self.getUnit y)`); its two leaves are here;
    * `transpiler.parse_tree(math_element)`: `parseTree` — the walk of the transpiler over the modelled fragment of MathML,
      hand-written (`walkExpr`; the Transpiler's own source is tied for C02 in `Tie/Transpile*.lean`), with EVERY `<ci>`
      handed to the closure and EVERY `<cn>` to the lambda the generated code built;
    * `self.model.add_equation(expr)`: the GENERATED `Gen.ModelState.addEquation` (`check_duplicates` at its default
      `True`) run on the model object `MathsSt.ms` that the stage threads — so the refusal of a left-hand side that is
      neither a variable nor a first derivative of a variable, and of a second definition, is generated code.

    Core Lean only. -/

namespace Cellml.Tie.PMathsWalk
open Load Cellml.Tie Cellml.Tie.PModelState

/-! ## the document side -/

/-- one side of an `<apply><eq/> … </apply>`, as far as `Load.Doc` / `C17.FaultDoc` can express it -/
inductive MSide where
  /-- MathML of the arithmetic fragment (`<ci>`, `<cn cellml:units>`, `<diff/>` of a variable, + − × ÷, unary minus,
      integer power) -/
  | e (x : Expr String String)
  /-- `<apply><diff/><bvar><ci>t</ci><degree><cn cellml:units="…">n</cn></degree></bvar><ci>x</ci></apply>` -/
  | higher (x t : String) (n : Nat)
deriving Repr, DecidableEq

structure MEq where
  lhs : MSide
  rhs : Expr String String
deriving Repr, DecidableEq

/-- a `<math>` element: its `<apply><eq/>` children in document order -/
structure MathElem where
  eqs : List MEq
deriving Repr, DecidableEq

/-- a `<component>` element as `_add_maths` reads it: `get('name')` and `findall(with_ns(XmlNs.MATHML, 'math'))` -/
structure MCompElem where
  name : String
  maths : List MathElem
deriving Repr, DecidableEq

/-! ## the transpiler object -/

/-- `sympy.Eq(lhs, rhs)` as `parse_tree` returns it: BOTH sides are expressions (what the left one is, is decided by
    `Model.add_equation`) -/
structure TrEq where
  lhs : Expr VRef FUnit
  rhs : Expr VRef FUnit
deriving Repr, DecidableEq

/-- a `Transpiler` instance: the two callbacks it was constructed with -/
structure TranspilerObj where
  /-- `symbol_generator(identifier)` -/
  sym : String → Except PyErr (Option VRef)
  /-- `number_generator(value, units)` -/
  num : Rat → String → Except PyErr (Expr VRef FUnit)

/-- `Transpiler(symbol_generator=s, number_generator=n)` -/
def mkTranspiler (s : String → Except PyErr (Option VRef)) (n : Rat → String → Except PyErr (Expr VRef FUnit)) :
    TranspilerObj := ⟨s, n⟩

/-- the bound on the `while` of the closure: `len(connected_variable_mapping)` (the python loop has ended by then,
    `connect_forest_gen` G2) -/
def whileBound (m : VMap) : Nat := m.entries.length

/-- `_ci_handler`: `self.symbol_generator(node.text.strip())` (the closure asserts that it does not return `None`) -/
def TranspilerObj.ci (T : TranspilerObj) (a : String) : Except PyErr VRef :=
  match T.sym a with
  | .error e => .error e
  | .ok (some v) => .ok v
  | .ok none => .error ⟨"AssertionError"⟩

/-- the walk of the transpiler over an expression of the fragment: `<ci>` through `symbol_generator`, `<cn>` through
    `number_generator`, operands left to right, `<bvar>` before the differentiated variable -/
def walkExpr (T : TranspilerObj) : Expr String String → Except PyErr (Expr VRef FUnit)
  | .num q u => T.num q u
  | .var a => match T.ci a with
      | .ok v => .ok (.var v)
      | .error e => .error e
  | .diff x t => match T.ci t with
      | .error e => .error e
      | .ok t' => match T.ci x with
        | .error e => .error e
        | .ok x' => .ok (.diff x' t')
  | .add a b => match walkExpr T a with
      | .error e => .error e
      | .ok a' => match walkExpr T b with
        | .error e => .error e
        | .ok b' => .ok (.add a' b')
  | .sub a b => match walkExpr T a with
      | .error e => .error e
      | .ok a' => match walkExpr T b with
        | .error e => .error e
        | .ok b' => .ok (.sub a' b')
  | .mul a b => match walkExpr T a with
      | .error e => .error e
      | .ok a' => match walkExpr T b with
        | .error e => .error e
        | .ok b' => .ok (.mul a' b')
  | .div a b => match walkExpr T a with
      | .error e => .error e
      | .ok a' => match walkExpr T b with
        | .error e => .error e
        | .ok b' => .ok (.div a' b')
  | .neg a => match walkExpr T a with
      | .error e => .error e
      | .ok a' => .ok (.neg a')
  | .powi a n => match walkExpr T a with
      | .error e => .error e
      | .ok a' => .ok (.powi a' n)

/-- one side of an equation. A `<degree>` holding a `<cn>` with units: `_wrapped_diff` calls `int(…)` on the Quantity the
    number generator made of it — TypeError while the side is being built (both identifiers have been resolved) -/
def walkSide (T : TranspilerObj) : MSide → Except PyErr (Expr VRef FUnit)
  | .e x => walkExpr T x
  | .higher x t _ => match T.ci t with
      | .error e => .error e
      | .ok _ => match T.ci x with
        | .error e => .error e
        | .ok _ => .error ⟨"TypeError"⟩

/-- the equations of one `<math>` element: ALL of them are transpiled (left side, then right side, in document order)
    before `parse_tree` returns -/
def parseEqs (T : TranspilerObj) : List MEq → Except PyErr (List TrEq)
  | [] => .ok []
  | q :: r => match walkSide T q.lhs with
      | .error e => .error e
      | .ok l => match walkExpr T q.rhs with
        | .error e => .error e
        | .ok rh => match parseEqs T r with
          | .error e => .error e
          | .ok rs => .ok (⟨l, rh⟩ :: rs)

/-- `transpiler.parse_tree(math_element)` -/
def parseTree (T : TranspilerObj) (m : MathElem) : Except PyErr (List TrEq) := parseEqs T m.eqs

/-! ## the leaves of the lambda `number_generator` -/

/-- `Parser` / `Model` as seen by `_add_maths`: the unit store `self.model.units` -/
structure MathsView where
  ust : Units.Store

/-- `self.model.units.get_unit(name)`: KeyError for a name the store does not know -/
def MathsView.getUnit (self : MathsView) (u : String) : Except PyErr Container :=
  match Units.getUnit self.ust u with
  | .ok c => .ok c
  | .error _ => .error ⟨"KeyError"⟩

/-- `self.model.create_quantity(value, units)`: a number carrying the pint unit (no magnitude multiplier) -/
def createQuantity (q : Rat) (c : Container) : Expr VRef FUnit := .num q ([], c)

/-! ## `self.model.add_equation(expr)`: the GENERATED `Model.add_equation` on the threaded model object -/

theorem char_lt (c : Char) : c.toNat < 1114112 := by
  have h := c.valid
  unfold UInt32.isValidChar Nat.isValidChar at h
  show c.val.toNat < 1114112
  omega

/-- a text as a number: bijective numeration with the code points (+1) as digits -/
def encS : List Char → Nat
  | [] => 0
  | c :: l => (c.toNat + 1) + 1114113 * encS l

theorem encS_inj : ∀ (a b : List Char), encS a = encS b → a = b
  | [], [], _ => rfl
  | [], c :: l, h => by have := char_lt c; simp only [encS] at h; omega
  | c :: l, [], h => by have := char_lt c; simp only [encS] at h; omega
  | c :: l, d :: m, h => by
    have h1 := char_lt c
    have h2 := char_lt d
    simp only [encS] at h
    have hc : c.toNat = d.toNat := by omega
    have hl : encS l = encS m := by omega
    rw [Char.toNat_inj.mp hc, encS_inj l m hl]

/-- the digits of the component, a separator digit, then the name -/
def encP : List Char → List Char → Nat
  | [], x => 1114113 + 1114114 * encS x
  | c :: l, x => c.toNat + 1114114 * encP l x

theorem encP_inj : ∀ (a b x y : List Char), encP a x = encP b y → a = b ∧ x = y
  | [], [], x, y, h => by
    simp only [encP] at h
    exact ⟨rfl, encS_inj x y (by omega)⟩
  | [], c :: l, x, y, h => by have := char_lt c; simp only [encP] at h; omega
  | c :: l, [], x, y, h => by have := char_lt c; simp only [encP] at h; omega
  | c :: l, d :: m, x, y, h => by
    have h1 := char_lt c
    have h2 := char_lt d
    simp only [encP] at h
    have hc : c.toNat = d.toNat := by omega
    have hl : encP l x = encP m y := by omega
    obtain ⟨e1, e2⟩ := encP_inj l m x y hl
    exact ⟨by rw [Char.toNat_inj.mp hc, e1], e2⟩

/-- the identity number under which `Model.MState` (Tie/ModelStateView.lean: variables are numbers) knows the Variable
    object that the loader's models call `(component, name)`: any injective numbering will do, this is one -/
def encV (v : VRef) : Nat := encP v.1.toList v.2.toList

theorem encV_inj {v w : VRef} (h : encV v = encV w) : v = w := by
  obtain ⟨a, x⟩ := v
  obtain ⟨b, y⟩ := w
  obtain ⟨e1, e2⟩ := encP_inj _ _ _ _ h
  have e1' : a.toList = b.toList := e1
  have e2' : x.toList = y.toList := e2
  rw [String.toList_inj.mp e1', String.toList_inj.mp e2']

/-- the left-hand side as `Model.add_equation` classifies it (`lhs.is_Derivative`, `isinstance(lhs.args[0], Variable)`,
    `isinstance(lhs, Variable)` are then read by the leaves of Tie/ModelStateView.lean): a Variable, the first derivative
    of a Variable with respect to one (what the walk builds for `<diff/>`), or any other expression -/
def encLhs : Expr VRef FUnit → Model.Lhs
  | .var v => .var (encV v)
  | .diff x t => .deriv (encV x) (encV t) 1
  | _ => .other

/-- `len(lhs.args)` and `lhs.args[1][1]` of the `sympy.Derivative(x, t)` that `_wrapped_diff` builds: `(x, (t, 1))` -/
def firstDeriv : DerivShape := ⟨2, 1⟩

/-- the equation as an object of `Model.MState` (only its left-hand side is looked at by `add_equation`) -/
def encEq (q : TrEq) : Model.Eqn := ⟨0, encLhs q.lhs, [], [], false⟩

/-- the left-hand side in the words of the flat model, when it is one -/
def flatLhs : Expr VRef FUnit → Option (Lhs VRef)
  | .var v => some (.var v)
  | .diff x t => some (.diff x t)
  | _ => none

/-- what `_add_maths` changes: the `Model` object (`ms`: the definition maps `add_equation` reads and writes), and — for
    the later stages of the loader model — the variables that got a definition and the equations added, in order -/
structure MathsSt where
  ms : Model.MState
  defined : List VRef
  eqs : List FlatEq

/-- `self.model.add_equation(expr)`: the GENERATED `Model.add_equation(equation, check_duplicates=True)` decides and
    updates the model object; the loader's record follows it -/
def addEquation (st : MathsSt) (q : TrEq) : Except PyErr MathsSt :=
  match (Cellml.Gen.ModelState.addEquation firstDeriv (encEq q) true).run st.ms with
  | (.error e, _) => .error e
  | (.ok (), ms') =>
    match flatLhs q.lhs with
    | some l => .ok ⟨ms', l.defines :: st.defined, st.eqs ++ [⟨l, q.rhs⟩]⟩
    | none => .ok ⟨ms', st.defined, st.eqs⟩

end Cellml.Tie.PMathsWalk
