import Cellml.Tie.Units
import Cellml.Tie.UnitsInit
import Cellml.Tie.GenBUnits
import Cellml.Iso.Lemmas
import Mathlib.Tactic.SplitIfs

/-! # GenB: the process of C16 (`Iso.step`, `Iso.run`, `Iso.obsStore`, `Iso.crossFactor`) over the GENERATED methods

    `Iso.step` applies the hand models `World.newStore`, `Units.addUnit`, `Units.addBaseUnit` to the process state.
    `genStep` applies the definitions generated from `cellmlmanip/units.py` instead — `UnitStore.__init__`
    (`Gen.UnitsInit.init`), `add_unit` (`Gen.Units.addUnit`), `add_base_unit` (`Gen.Units.addBaseUnit`) — to the python
    objects of that state (`storeObj`, `storeRef`, `shareArg`: the views of `Tie/UnitsView.lean`) and reads the
    mutated object back (`storeOfObj`, `storeOfRef`). `genObsStore` / `genProbe` observe through the generated
    `get_unit` (and pint's `get_base_units` / `dimensionality`: leaves), `genCrossFactor` converts with the generated
    `get_unit` and `get_conversion_factor`.

    `genStep_eq`: `genStep w op = Iso.step w op` whenever `OpDom w op` — the domain of `addUnit_tie` (no `dimensionless`
    mixed with dimensional units and no multiplier ≤ 0: the model ABSTAINS there). For `newStore`, `addBase`, for
    definitions refused for an offset or a malformed number, and — since the repair of the hand model,
    notes/reports/MODELFIX_Units.md — for unknown names with a total exponent of zero and for any order of a bad name and
    a bad expression, there is no condition: model and code agree. -/

set_option linter.unusedSimpArgs false

namespace Cellml.Tie.PGenB
open Units Units.Wire Iso PMap Cellml.Gen Cellml.Tie Cellml.Tie.PUnits

/-! ### reading python objects back -/

/-- the user names of `_known_units` (the set starts as the built-in names, kept last) -/
def userNames (known : List String) : List String := known.take (known.length - cellmlUnits.length)

theorem userNames_append (l : List String) : userNames (l ++ cellmlUnits) = l := by
  simp [userNames]

/-- the model store of a `UnitStore` object -/
def storeOfObj (o : StoreObj) : Store := ⟨o._id, userNames o._known_units⟩
/-- … and of one whose registry is a reference -/
def storeOfRef (o : StoreRef) : Store := ⟨o._id, userNames o._known_units⟩

@[simp] theorem storeOfObj_storeObj (st : Store) (reg : Registry) (rules : List Rule) :
    storeOfObj (storeObj st reg rules) = st := by
  simp [storeOfObj, storeObj, userNames_append]

@[simp] theorem storeOfRef_storeRef (p : Store × Nat) : storeOfRef (storeRef p) = p.1 := by
  simp [storeOfRef, storeRef, userNames_append]

/-! ### the process over the generated methods -/

/-- the memory `__init__` is handed before it has run -/
def rawSelf : StoreRef := ⟨0, "", [], 0⟩

/-- run a generated method on the object of store `s`; a raise changes nothing; otherwise the mutated object is
    written back (its registry object and its own fields) -/
def genApplyTo (w : World) (s : Nat) (f : StoreObj → Except PyErr (StoreObj × UnitObj)) : World :=
  match w.regOf s with
  | some (st, ri, reg) =>
      match f (storeObj st reg []) with
      | .ok (o, _) => w.update s ri o._registry.defs (storeOfObj o)
      | .error _ => w
  | none => w

/-- `Iso.step` with the generated `__init__`, `add_unit`, `add_base_unit` -/
def genStep (w : World) : Op → World
  | .newStore share =>
      match UnitsInit.init rawSelf (shareArg w share) w.stores.length w.regs with
      | .ok (o, _, regs) => { regs := regs, stores := w.stores ++ [(storeOfRef o, o._registry)] }
      | .error _ => w
  | .addUnit s name elems => genApplyTo w s (fun o => Gen.Units.addUnit o name ⟨elems, id⟩)
  | .addBase s name => genApplyTo w s (fun o => Gen.Units.addBaseUnit o name)

def genRun (w : World) (ops : List Op) : World := ops.foldl genStep w

/-- `get_unit(name)` by the generated method, then its root form (pint); `none` is the `KeyError` -/
def genObsName (reg : Registry) (st : Store) (name : String) : Option UnitObs :=
  match Gen.Units.getUnit (storeObj st reg []) name with
  | .ok u => some (obsUnit reg u.c)
  | .error _ => none

/-- everything observable through store `i`: its `_known_units` (hence the generated `is_defined` of every name) and
    the root form of every known name -/
def genObsStore (w : World) (i : Nat) : Option StoreObs :=
  match w.regOf i with
  | some (st, _, reg) =>
      some { known := (storeObj st reg [])._known_units,
             units := (storeObj st reg [])._known_units.map (fun n => (n, genObsName reg st n)) }
  | none => none

/-- probe with an arbitrary name: generated `is_defined`, generated `get_unit` + root form -/
def genProbe (w : World) (i : Nat) (name : String) : Option (Bool × Option UnitObs) :=
  match w.regOf i with
  | some (st, _, reg) => some (Id.run (Gen.Units.isDefined (storeObj st reg []) name), genObsName reg st name)
  | none => none

/-- `stores[i].get_conversion_factor(stores[i].get_unit(x), stores[j].get_unit(y))` by the generated methods
    (units of two different pint registries: pint raises `ValueError` — a leaf) -/
def genCrossFactor (w : World) (i : Nat) (x : String) (j : Nat) (y : String) : Except PyErr CFObj :=
  match w.regOf i, w.regOf j with
  | some (sti, ri, reg), some (stj, rj, regj) => do
      let a ← Gen.Units.getUnit (storeObj sti reg []) x
      let b ← Gen.Units.getUnit (storeObj stj regj []) y
      if ri ≠ rj then throw ⟨"ValueError"⟩
      Gen.Units.getConversionFactor (storeObj sti reg []) a b
  | _, _ => throw ⟨"IndexError"⟩

/-! ### the domain on which `add_unit` and the hand model agree -/

/-- the domain of `addUnit_tie` (`hsup`) for a definition whose text has a value in the hand model.
    A definition the hand model refuses as `unsupported` (a zero or negative multiplier: outside its number fragment;
    the CODE defines such a unit) is outside; one it refuses for an offset or a malformed number is inside (the code
    raises as well: `gen_addUnit_defErr`). -/
def AddDom (_reg : Registry) (st : Store) (elems : List UnitElem) : Prop :=
  match defMeaning st.id elems with
  | .ok (_, c, d) => ¬ (norm c ≠ [] ∧ d = true)
  | .error (.unsupported _) => False
  | .error _ => True

instance (reg : Registry) (st : Store) (elems : List UnitElem) : Decidable (AddDom reg st elems) :=
  match h : defMeaning st.id elems with
  | .ok (_, c, d) =>
      decidable_of_iff (¬ (norm c ≠ [] ∧ d = true)) (by unfold AddDom; rw [h])
  | .error (.unsupported _) => isFalse (by unfold AddDom; rw [h]; exact id)
  | .error .offset => isTrue (by unfold AddDom; rw [h]; trivial)
  | .error (.badNumber _) => isTrue (by unfold AddDom; rw [h]; trivial)

/-- the domain of `addUnit_tie` for the operation `op` in the state `w` (decidable; `True` for `newStore`, `addBase`
    and for a store that does not exist) -/
def OpDom (w : World) : Op → Prop
  | .addUnit s _ elems =>
      match w.regOf s with
      | some (st, _, reg) => AddDom reg st elems
      | none => True
  | _ => True

instance instDecidableOpDom (w : World) (op : Op) : Decidable (OpDom w op) :=
  match op with
  | .addUnit s _ elems =>
      match h : w.regOf s with
      | some (st, _, reg) => decidable_of_iff (AddDom reg st elems) (by simp only [OpDom, h])
      | none => isTrue (by simp only [OpDom, h])
  | .newStore _ => isTrue trivial
  | .addBase _ _ => isTrue trivial

/-- … along a run -/
def RunDom : World → List Op → Prop
  | _, [] => True
  | w, op :: ops => OpDom w op ∧ RunDom (step w op) ops

def decRunDom : (ops : List Op) → (w : World) → Decidable (RunDom w ops)
  | [], _ => isTrue trivial
  | op :: ops, w =>
      match instDecidableOpDom w op, decRunDom ops (step w op) with
      | isTrue h1, isTrue h2 => isTrue ⟨h1, h2⟩
      | isFalse h1, _ => isFalse (fun h => h1 h.1)
      | _, isFalse h2 => isFalse (fun h => h2 h.2)

instance (w : World) (ops : List Op) : Decidable (RunDom w ops) := decRunDom ops w

/-! ### `genStep = step` -/

theorem model_addUnit_defErr (reg : Registry) (st : Store) (name : String) (elems : List UnitElem) (e : DefErr)
    (hdef : defMeaning st.id elems = .error e) : ∃ e', Units.addUnit reg st name elems = .error e' := by
  cases h : Units.addUnit reg st name elems with
  | error e' => exact ⟨e', rfl⟩
  | ok r =>
    obtain ⟨k, c, md, hd, _⟩ := Units.addUnit_ok h
    rw [hdef] at hd; cases hd

/-- a definition whose text has no value (bad number, offset): the generated `add_unit` raises (one of the three
    name tests, or pint's parser) -/
theorem gen_addUnit_defErr (reg : Registry) (st : Store) (rules : List Rule) (name : String) (elems : List UnitElem)
    (e : DefErr) (hdef : defMeaning st.id elems = .error e) :
    ∃ e', Gen.Units.addUnit (storeObj st reg rules) name ⟨elems, id⟩ = .error e' := by
  have hw := wordSub_tie st reg rules elems
  have hm : defMeaningG (mangle st.id) elems = .error e := by rw [defMeaningG_mangle, hdef]
  cases h : Gen.Units.addUnit (storeObj st reg rules) name ⟨elems, id⟩ with
  | error e' => exact ⟨e', rfl⟩
  | ok r =>
    exfalso
    unfold Gen.Units.addUnit at h
    simp only [hw] at h
    by_cases h1 : Py.isIn name Cellml.Gen.cellmlUnits = true
    · simp [h1, throw, throwThe, MonadExceptOf.throw, bind, Except.bind] at h
    by_cases h2 : Py.isIn name (storeObj st reg rules)._known_units = true
    · simp [h1, h2, throw, throwThe, MonadExceptOf.throw, bind, Except.bind] at h
    by_cases h3 : Py.isIn name Cellml.Gen.unsupportedUnits = true
    · simp [h1, h2, h3, throw, throwThe, MonadExceptOf.throw, bind, Except.bind] at h
    simp [h1, h2, h3, throw, throwThe, MonadExceptOf.throw, bind, Except.bind, pure, Except.pure, pintParse, hm,
      storeObj] at h
    split at h <;> cases h

theorem genApplyTo_addUnit (w : World) (s : Nat) (name : String) (elems : List UnitElem)
    (hd : OpDom w (.addUnit s name elems)) :
    genApplyTo w s (fun o => Gen.Units.addUnit o name ⟨elems, id⟩) =
      applyTo w s (fun reg st => Units.addUnit reg st name elems) := by
  unfold genApplyTo applyTo
  cases hr : w.regOf s with
  | none => rfl
  | some p =>
    obtain ⟨st, ri, reg⟩ := p
    simp only [OpDom, hr] at hd
    simp only
    cases hdef : defMeaning st.id elems with
    | error e =>
      obtain ⟨e1, h1⟩ := model_addUnit_defErr reg st name elems e hdef
      obtain ⟨e2, h2⟩ := gen_addUnit_defErr reg st [] name elems e hdef
      rw [h1, h2]
    | ok q =>
      obtain ⟨k, c, d⟩ := q
      simp only [AddDom, hdef] at hd
      rw [addUnit_tie st reg [] name elems k c d hdef hd]
      cases Units.addUnit reg st name elems with
      | error e => rfl
      | ok r =>
        obtain ⟨reg', st'⟩ := r
        simp [errClass, Except.map, added, storeObj, storeOfObj, userNames_append]

theorem genApplyTo_addBase (w : World) (s : Nat) (name : String) :
    genApplyTo w s (fun o => Gen.Units.addBaseUnit o name) =
      applyTo w s (fun reg st => Units.addBaseUnit reg st name) := by
  unfold genApplyTo applyTo
  cases hr : w.regOf s with
  | none => rfl
  | some p =>
    obtain ⟨st, ri, reg⟩ := p
    simp only
    rw [addBaseUnit_tie]
    cases Units.addBaseUnit reg st name with
    | error e => rfl
    | ok r =>
      obtain ⟨reg', st'⟩ := r
      simp [errClass, Except.map, added, storeObj, storeOfObj, userNames_append]

theorem genStep_newStore (w : World) (share : Option Nat) : genStep w (.newStore share) = w.newStore share := by
  obtain ⟨p, hinit, hstores, _⟩ := init_tie w share rawSelf
  simp only [genStep, hinit, storeOfRef_storeRef]
  have : (storeRef p)._registry = p.2 := rfl
  rw [this, ← hstores]

/-- one operation through the generated methods = one step of the hand model, on the tie domain -/
theorem genStep_eq (w : World) (op : Op) (hd : OpDom w op) : genStep w op = step w op := by
  cases op with
  | newStore share => exact genStep_newStore w share
  | addUnit s name elems => exact genApplyTo_addUnit w s name elems hd
  | addBase s name => exact genApplyTo_addBase w s name

theorem genRun_eq : ∀ (ops : List Op) (w : World), RunDom w ops → genRun w ops = run w ops := by
  intro ops
  induction ops with
  | nil => intro w _; rfl
  | cons op ops ih =>
    intro w hd
    have h1 := genStep_eq w op hd.1
    show genRun (genStep w op) ops = run (step w op) ops
    rw [h1]
    exact ih _ hd.2

/-! ### observations through the generated methods = observations of the hand model (no hypothesis) -/

theorem genObsName_eq (reg : Registry) (st : Store) (name : String) : genObsName reg st name = obsName reg st name := by
  unfold genObsName obsName
  rw [getUnit_tie]
  cases Units.getUnit st name <;> rfl

/-- the generated observation is the model's, with the python set `_known_units` (user names, then the built-in
    names) in place of the list of user names -/
theorem genObsStore_eq (w : World) (i : Nat) :
    genObsStore w i = (obsStore w i).map (fun o => { o with known := o.known ++ cellmlUnits }) := by
  unfold genObsStore obsStore
  cases w.regOf i with
  | none => rfl
  | some p =>
    obtain ⟨st, ri, reg⟩ := p
    simp only [Option.map, storeObj]
    congr 2
    apply List.map_congr_left
    intro n _
    rw [genObsName_eq]

theorem genProbe_eq (w : World) (i : Nat) (name : String) : genProbe w i name = probe w i name := by
  unfold genProbe probe
  cases w.regOf i with
  | none => rfl
  | some p =>
    obtain ⟨st, ri, reg⟩ := p
    simp only [isDefined_tie, genObsName_eq]

end Cellml.Tie.PGenB
