"""Code-translator spec of package NumPipe (property C14): every function of cellmlmanip a NUMBER of the document passes
through after `Transpiler._cn_handler` (that one is harness/code_specs/transpile.py, `cnHandlerText`), read the way the
model C14/Pipeline.lean reads numbers: a python float is its binary64 bit pattern.

  Quantity.__new__ / __init__ / __float__ / _eval_evalf, Model.create_quantity, Variable.__init__,
  Parser.transform_constants, Model.graph_with_sympy_numbers, Model._get_value (+ expand_derivatives, get_value),
  Printer._print_float / _print_Float / _print_int.

Tie theorems: lean/Cellml/Tie/NumPipe.lean; accessors: lean/Cellml/Tie/NumPipeView.lean (namespace Cellml.Tie.PNumPipe);
the composed generated pipeline and the restated property theorems: lean/Cellml/Props/C14Gen.lean.

Every pattern binds a LEAF: python's `float` / `str` / `'{:g}'.format`, `sympy.Float`, `Expr.evalf`, `xreplace`, `atoms`,
networkx calls, attribute reads and writes, the constructor call `Quantity(value, units)` (python's `type.__call__`, bound
to the GENERATED `__new__` and `__init__`), calls of other translated functions (bound to the generated callee), and the
module constant FLOAT_PRECISION (bound to the generated constant `Cellml.Gen.floatPrecision` of translate_tables.py).
`graph_with_sympy_numbers`, `transform_constants` and `_get_value` are also translated for C09 / C17 / C10 (graphnum.py,
loaderconsts.py, rolesvalue.py) with the numbers abstracted away; here the NUMBERS flow and the rest is a leaf."""

M = 'cellmlmanip/model.py'
PR = 'cellmlmanip/printer.py'
PA = 'cellmlmanip/parser.py'
EXT = 'numpipe:NumFn'


def attr(name, wrap='some {A}'):
    return ('self.%s = __A' % name, 'self := { self with %s := %s }' % (name, wrap))


GROUP = {
    'name': 'NumPipe',
    'imports': ['Cellml.Tie.NumPipeView', 'Cellml.Generated.Tables'],
    'header': 'open Cellml.Tie.PNumPipe',
    'functions': [
        # ---------------------------------------------------------------------------------------------- Quantity
        {'file': M, 'func': 'Quantity.__new__', 'lean_name': 'quantityNew',
         'params': ['v', 'value'],
         'signature': '(v : PView) (value : PyVal) : Except PyErr QObj',
         'patterns': [
             ('isinstance(value, str)', '(PyVal.isStr value)'),
             ("'{:g}'.format(__A)", '(fmtG v {A})'),
             ("'_' + value", '(← strConcat "_" value)'),            # str + object: TypeError unless a str
             ('super().__new__(cls, __N, real=__R)', '(newDummy v {N} {R})'),
         ]},
        {'file': M, 'func': 'Quantity.__init__', 'lean_name': 'quantityInit',
         'params': ['self', 'value', 'units'],
         'loop_state': ['self'],
         'signature': '(self : QObj) (value : PyVal) (units : UArg) : Except PyErr QObj',
         'stmt_patterns': [attr('_value'), attr('units')]},
        {'file': M, 'func': 'Quantity.__float__', 'lean_name': 'quantityFloat',
         'signature': '(self : QObj) : Except PyErr Nat',
         'patterns': [('self._value', '(← attrValue self)'),
                      ('float(__A)', '(← pyFloat {A})')]},
        {'file': M, 'func': 'Quantity._eval_evalf', 'lean_name': 'quantityEvalEvalf',
         'signature': '(self : QObj) (prec : Nat) : Except PyErr SNum',
         'patterns': [('self._value', '(← attrValue self)'),
                      ('sympy.Float(__A, __B)', '(← sympyFloat {A} {B})')]},
        {'file': M, 'func': 'Model.create_quantity', 'lean_name': 'createQuantity',
         'params': ['v', 'value', 'units'],
         'signature': '(v : PView) (value : PyVal) (units : UArg) : Except PyErr QObj',
         'patterns': [
             ('isinstance(units, self.units.Unit)', '(UArg.isUnit units)'),
             ('self.units.get_unit(units)', '← getUnitArg v units'),
             # python's type.__call__: the generated __new__, then the generated __init__ on the new object
             ('Quantity(__A, __B)', '(← construct (quantityNew v) quantityInit {A} {B})'),
         ]},
        # ---------------------------------------------------------------------------------------------- Variable
        {'file': M, 'func': 'Variable.__init__', 'lean_name': 'variableInit', 'fn_class': EXT,
         'params': ['self', 'name', 'units', 'model', 'initial_value', 'public_interface', 'private_interface',
                    'order_added', 'cmeta_id'],
         'loop_state': ['self'],
         'signature': '(self : VObj) (name : Option String) (units : Option UArg) (model : Option Nat) '
                      '(initial_value : Option PyVal) (public_interface private_interface : Option String) '
                      '(order_added : Option Nat) (cmeta_id : Option String) : Except PyErr VObj',
         'patterns': [('float(initial_value)', '(someFlt (← pyFloatOpt initial_value))'),
                      ("private_interface == 'in'", '(private_interface == some "in")'),   # str vs Optional[str]
                      ("public_interface == 'in'", '(public_interface == some "in")')],
         'stmt_patterns': [
             ('self.assigned_to = None', 'self := { self with assigned_to := none }'),
             ('self.assigned_to = self', 'self := { self with assigned_to := some self.id }'),     # the object itself
             ('self._set_cmeta_id(__A)', 'self := { self with _cmeta_id := {A} }'),                # its body, one line
             ('self.type = None', 'self := { self with type := none }'),
         ] + [attr(a, '{A}') for a in ('_model', 'name', 'units', 'initial_value', 'public_interface',
                                       'private_interface', 'order_added', '_cmeta_id', '_rdf_identity')]},
        # ---------------------------------------------------------------------------------------------- the parser
        {'file': PA, 'func': 'Parser.transform_constants', 'lean_name': 'transformConstants',
         'params': ['v', 'self'],
         'loop_state': ['self'],
         'signature': '(v : PView) (self : NModel) : Except PyErr NModel',
         'patterns': [('set(self.model.get_state_variables())', '(stateVars self)'),
                      ('list(self.model.variables())', '(self).vars'),
                      ('self.model.create_quantity(__A, __B)', '← createQuantity (viewAt v self) (← optVal {A}) (← optVal {B})')],
         'stmt_patterns': [('self.model.add_equation(sympy.Eq(__A, __B))', 'self ← addEquationQ self {A} {B}'),
                           ('__A.initial_value = None', 'self := clearInit self {A}')]},
        # ---------------------------------------------------------------------------------------------- the model
        {'file': M, 'func': 'Model.graph_with_sympy_numbers', 'lean_name': 'graphWithSympyNumbers', 'fn_class': EXT,
         'params': ['self', 'cache'],
         'signature': '(self : NModel) (cache : Option NGraph) : Except PyErr (NGraph × Option NGraph)',
         'mutable': ['graph', 'cache'],
         'patterns': [('self._graph_with_sympy_numbers', 'cache'),
                      ('self.graph.copy()', '← (self).graph'),
                      ("graph.nodes[__A]['equation']", '← nodeEquation graph {A}'),
                      ('graph.nodes', '(NGraph.nodeIds graph)'),
                      ('equation.rhs.atoms(Quantity)', '(quantityAtoms (theEq equation).rhs)'),
                      ('__D.evalf(__P)', '← sympyEvalf (quantityEvalEvalf {D}) {P}'),
                      ('FLOAT_PRECISION', 'Cellml.Gen.floatPrecision'),
                      ('equation.rhs.xreplace(subs_dict)', '(xreplaceQ (theEq equation).rhs subs_dict)'),
                      ('self.find_variables_and_derivatives([rhs])', '(varRefs rhs)'),
                      ('sympy.Eq(__A, __B)', '(NEq.mk {A} {B})'),
                      ('equation.lhs', '(theEq equation).lhs'),
                      ('tuple(graph.in_edges(__A))', '(inEdges graph {A})'),
                      ('edge[0]', '(edge).1')],
         'stmt_patterns': [('return self._graph_with_sympy_numbers', 'return (theGraph cache, cache)'),
                           ('return __A', 'return ({A}, cache)'),
                           ('self._graph_with_sympy_numbers = __A', 'cache := some {A}'),
                           ('graph.remove_edge(__A, __B)', 'graph := removeEdge graph {A} {B}'),
                           ("graph.nodes[__N]['equation'] = __E", 'graph := setEquation graph {N} {E}')]},
        {'file': M, 'func': 'Model._get_value.expand_derivatives', 'lean_name': 'expandDerivatives',
         'signature': '(self : NModel) (rec : NExpr → Except PyErr NExpr) (expr : NExpr) : Except PyErr NExpr',
         'params': ['expr'],
         'mutable': ['replacements'],
         'dict_names': ['replacements'],
         'patterns': [('__A.atoms(sympy.Derivative)', '(derivAtoms {A})'),
                      ('self._ode_definition_map.get(__A)', '(odeGet self {A})'),
                      ('__A.args[0]', '{A}'),                 # a Derivative is represented by its state variable
                      ('__A.lhs', '(odeLhs {A})'),
                      ('expand_derivatives(__A)', '← rec {A}'),
                      ('__A.rhs', '← optRhs {A}'),
                      ('__A.xreplace(replacements)', '(xreplaceD {A} replacements)')]},
        {'file': M, 'func': 'Model._get_value', 'lean_name': 'getValueRec',
         'signature': '(self : NModel) (expand_derivatives : NExpr → Except PyErr NExpr) '
                      '(rec : Nat → NMemo → Except PyErr (Nat × NMemo)) (variable_ : Nat) (evaluated : NMemo) '
                      ': Except PyErr (Nat × NMemo)',
         'params': ['variable', 'evaluated'],
         'skip_defs': ['expand_derivatives'],
         'retyped_names': ['expr'],
         'returns_state': ['evaluated'],
         'dict_names': ['evaluated'],
         'patterns': [('self._ode_definition_map.keys()', '(odeKeys self)'),
                      ('self._ode_definition_map', '(odeKeys self)'),
                      ('float(__A.initial_value)', '← pyFloatOpt (initialValueOf self {A})'),
                      ('__A.initial_value', '(memoInit (initialValueOf self {A}))'),
                      ('self._var_definition_map[__A]', '← varDefItem self {A}'),
                      ('self.get_free_variable()', '← (self).free'),
                      ('expand_derivatives(__A)', '← expand_derivatives {A}'),
                      ('__A.rhs', '{A}'),                     # `_var_definition_map` is kept as variable ↦ rhs
                      ('__A.atoms(Variable)', '(varAtoms {A})'),
                      ('__A.xreplace(evaluated)', '← xreplaceMemo {A} evaluated'),
                      ('float(__A)', '← floatExpr quantityFloat {A}'),      # sympy calls the atom's __float__
                      ('0', 'zeroVal')],                      # the python int 0 (`return 0`, `evaluated[time] = 0`)
         'stmt_patterns': [('evaluated[__K] = self._get_value(__A, evaluated)',
                            'let (val__, ev__) ← rec {A} evaluated\n'
                            'evaluated := Py.setItem ev__ {K} (memoFloat val__)')]},
        {'file': M, 'func': 'Model.get_value', 'lean_name': 'getValue',
         'signature': '(self : NModel) (rec : Nat → NMemo → Except PyErr (Nat × NMemo)) (variable_ : Nat) '
                      ': Except PyErr Nat',
         'patterns': [('self._get_value(__A)', '(← rec {A} none).1')]},
        # ---------------------------------------------------------------------------------------------- the printer
        {'file': PR, 'func': 'Printer._print_float', 'lean_name': 'printFloat',
         'signature': '(v : PView) (expr : Nat) : Except PyErr String',
         'patterns': [('str(__A)', '(v.reprF {A})')]},                      # str of a python float = repr
        {'file': PR, 'func': 'Printer._print_Float', 'lean_name': 'printFloatS',
         'signature': '(v : PView) (expr : SNum) : Except PyErr String',
         'patterns': [('float(__A)', '(floatOfSNum {A})'),                  # Float.__float__
                      ('self._print_float(__A)', '← printFloat v {A}')]},
        {'file': PR, 'func': 'Printer._print_int', 'lean_name': 'printInt',
         'signature': '(v : PView) (expr : Int) : Except PyErr String',
         'patterns': [('str(__A)', '(String.ofList (C14.renderInt {A}))')]},  # str of a python int = '%d'
    ]}
