import Cellml.C10.Den
import Cellml.C08.Lemmas

/-! # C10: `getValue` computes what the definitions denote — the generic argument

    For a model whose definitions can be ranked (`Ranked`): `expand`, `evalE`, `evalDeps` and `getValueAux` either
    return the denoted value, or fail with an error that is not `fuel` and then the item denotes nothing. By induction on
    fuel; the memo is carried as an invariant (`MemoOK`: every entry is the denoted value). Core Lean only. -/

namespace Model

mutual
  /-- no derivative left (not in the argument places of an opaque term either) -/
  def Expr.plain : Expr → Bool
    | .num _ => true
    | .var _ => true
    | .deriv _ _ => false
    | .bin _ a b => a.plain && b.plain
    | .pow a _ => a.plain
    | .opq _ args => Expr.plainL args
  def Expr.plainL : List Expr → Bool
    | [] => true
    | a :: as => a.plain && Expr.plainL as
end

theorem Expr.plainL_iff (l : List Expr) : Expr.plainL l = true ↔ ∀ a ∈ l, a.plain = true := by
  induction l with
  | nil => simp [Expr.plainL]
  | cons a as ih => simp [Expr.plainL, ih]

/-- The definitions are ranked: every reference of a right-hand side ranks below the left-hand side (so there is no
    cycle); `Occ` holds of everything that occurs on a right-hand side; `m` is a second measure that decreases with
    `rank` on occurring nodes of the same kind (it is what the fuel is compared with). -/
structure Ranked (M : RModel) (rank : Node → Nat) (Occ : Node → Prop) (m : Node → Nat) : Prop where
  varDec : ∀ v r, varRhs M v = some r → ∀ n ∈ r.nodes, rank n < rank (.var v) ∧ Occ n
  odeDec : ∀ s t r, odeRhs M s t = some r → ∀ n ∈ r.nodes, rank n < rank (.deriv s t) ∧ Occ n
  mVar : ∀ a b, Occ (.var a) → rank (.var a) < rank (.var b) → m (.var a) < m (.var b)
  mDer : ∀ s t s' t', Occ (.deriv s t) → rank (.deriv s t) < rank (.deriv s' t') → m (.deriv s t) < m (.deriv s' t')

section
variable {fn : Interp} {M : RModel} {rank : Node → Nat} {Occ : Node → Prop} {m : Node → Nat}

/-- where a variable of the expanded expression comes from -/
def VarBound (rank : Node → Nat) (Occ : Node → Prop) (e : Expr) (d : Nat) : Prop :=
  .var d ∈ e.nodes ∨ ∃ s t, .deriv s t ∈ e.nodes ∧ rank (.var d) < rank (.deriv s t) ∧ Occ (.var d)

theorem VarBound.mono {e e' : Expr} {d : Nat} (h : VarBound rank Occ e d) (hsub : ∀ n ∈ e.nodes, n ∈ e'.nodes) :
    VarBound rank Occ e' d := by
  rcases h with h | ⟨s, t, h1, h2⟩
  · exact .inl (hsub _ h)
  · exact .inr ⟨s, t, hsub _ h1, h2⟩

/-- what a correct expansion of `e` looks like -/
def GoodX (fn : Interp) (M : RModel) (rank : Node → Nat) (Occ : Node → Prop) (e : Expr) : Except VErr Expr → Prop
  | .ok e' => e'.plain = true ∧ (∀ q, Den fn M (.e e) q ↔ Den fn M (.e e') q) ∧ ∀ d ∈ e'.vars, VarBound rank Occ e d
  | .error err => err ≠ .fuel ∧ ∀ q, ¬ Den fn M (.e e) q

/-- … of a list of argument places -/
def GoodXL (fn : Interp) (M : RModel) (rank : Node → Nat) (Occ : Node → Prop) (es : List Expr) :
    Except VErr (List Expr) → Prop
  | .ok es' => Expr.plainL es' = true ∧ (∀ qs, Dens fn M es qs ↔ Dens fn M es' qs) ∧
      ∀ a' ∈ es', ∀ d ∈ a'.vars, ∃ a ∈ es, VarBound rank Occ a d
  | .error err => err ≠ .fuel ∧ ∀ qs, ¬ Dens fn M es qs

theorem vars_bin (op : BinOp) (a b : Expr) : (Expr.bin op a b).vars = a.vars ++ b.vars := by
  simp [Expr.vars, Expr.nodes, List.flatMap_append]

theorem vars_pow (a : Expr) (n : Int) : (Expr.pow a n).vars = a.vars := by
  simp [Expr.vars, Expr.nodes]

theorem nodes_opq (id : String) (args : List Expr) : (Expr.opq id args).nodes = args.flatMap Expr.nodes := by
  simp [Expr.nodes, Expr.nodesL_eq]

theorem mem_nodes_opq {id : String} {args : List Expr} {n : Node} :
    n ∈ (Expr.opq id args).nodes ↔ ∃ a ∈ args, n ∈ a.nodes := by
  rw [nodes_opq, List.mem_flatMap]

theorem mem_vars_opq {id : String} {args : List Expr} {d : Nat} :
    d ∈ (Expr.opq id args).vars ↔ ∃ a ∈ args, d ∈ a.vars := by
  simp only [Expr.vars, nodes_opq, List.mem_flatMap]
  constructor
  · rintro ⟨n, ⟨a, ha, hn⟩, hd⟩; exact ⟨a, ha, n, hn, hd⟩
  · rintro ⟨a, ha, n, hn, hd⟩; exact ⟨n, ⟨a, ha, hn⟩, hd⟩

theorem bindDL_good (g : Nat → Nat → Except VErr Expr) : ∀ (es : List Expr),
    (∀ a ∈ es, GoodX fn M rank Occ a (a.bindD g)) → GoodXL fn M rank Occ es (Expr.bindDL g es)
  | [], _ => ⟨rfl, fun _ => Iff.rfl, fun a' ha' => by cases ha'⟩
  | a :: as, h => by
    have iha := h a (List.mem_cons_self ..)
    have ihs := bindDL_good g as (fun x hx => h x (List.mem_cons_of_mem _ hx))
    simp only [Expr.bindDL]
    rcases ha : a.bindD g with ea | a'
    · rw [ha] at iha
      exact ⟨iha.1, fun qs hq => by
        obtain ⟨p, _, _, hp, _⟩ := dens_cons_iff.mp hq
        exact iha.2 p hp⟩
    · rw [ha] at iha
      rcases hs : Expr.bindDL g as with es | as'
      · rw [hs] at ihs
        exact ⟨ihs.1, fun qs hq => by
          obtain ⟨_, ps, _, _, hps⟩ := dens_cons_iff.mp hq
          exact ihs.2 ps hps⟩
      · rw [hs] at ihs
        obtain ⟨pa, da, va⟩ := iha
        obtain ⟨ps, ds, vs⟩ := ihs
        refine ⟨by simp [Expr.plainL, pa, ps], fun qs => ?_, fun x hx d hd => ?_⟩
        · rw [dens_cons_iff, dens_cons_iff]
          constructor
          · rintro ⟨p, ps', h0, h1, h2⟩; exact ⟨p, ps', h0, (da p).mp h1, (ds ps').mp h2⟩
          · rintro ⟨p, ps', h0, h1, h2⟩; exact ⟨p, ps', h0, (da p).mpr h1, (ds ps').mpr h2⟩
        · rcases List.mem_cons.mp hx with rfl | hx
          · exact ⟨a, List.mem_cons_self .., va d hd⟩
          · obtain ⟨y, hy, hb⟩ := vs x hx d hd
            exact ⟨y, List.mem_cons_of_mem _ hy, hb⟩

theorem bindD_good (g : Nat → Nat → Except VErr Expr) (e : Expr)
    (hg : ∀ s t, .deriv s t ∈ e.nodes → GoodX fn M rank Occ (.deriv s t) (g s t)) :
    GoodX fn M rank Occ e (e.bindD g) := by
  induction e with
  | num q => exact ⟨rfl, fun _ => Iff.rfl, fun d hd => by simp [Expr.vars, Expr.nodes] at hd⟩
  | var v =>
    refine ⟨rfl, fun _ => Iff.rfl, fun d hd => ?_⟩
    simp [Expr.vars, Expr.nodes, Node.atoms] at hd
    subst hd; exact .inl (by simp [Expr.nodes])
  | deriv s t => exact hg s t (by simp [Expr.nodes])
  | opq id args ih =>
    have ihs := bindDL_good (fn := fn) (M := M) (rank := rank) (Occ := Occ) g args
      (fun a ha => ih a ha (fun s t h => hg s t (mem_nodes_opq.mpr ⟨a, ha, h⟩)))
    simp only [Expr.bindD]
    rcases hs : Expr.bindDL g args with es | args'
    · rw [hs] at ihs
      exact ⟨ihs.1, fun q h => by
        obtain ⟨vals, hv, _⟩ := den_opq_iff.mp h
        exact ihs.2 vals hv⟩
    · rw [hs] at ihs
      obtain ⟨ps, ds, vs⟩ := ihs
      refine ⟨by simpa [Expr.plain] using ps, fun q => ?_, fun d hd => ?_⟩
      · rw [den_opq_iff, den_opq_iff]
        constructor
        · rintro ⟨vals, h1, h2⟩; exact ⟨vals, (ds vals).mp h1, h2⟩
        · rintro ⟨vals, h1, h2⟩; exact ⟨vals, (ds vals).mpr h1, h2⟩
      · obtain ⟨a', ha', hd'⟩ := mem_vars_opq.mp hd
        obtain ⟨a, ha, hb⟩ := vs a' ha' d hd'
        exact hb.mono (fun n hn => mem_nodes_opq.mpr ⟨a, ha, hn⟩)
  | bin op a b iha ihb =>
    have iha := iha (fun s t h => hg s t (by simp [Expr.nodes]; exact .inl h))
    have ihb := ihb (fun s t h => hg s t (by simp [Expr.nodes]; exact .inr h))
    simp only [Expr.bindD]
    rcases ha : a.bindD g with ea | a'
    · rw [ha] at iha
      exact ⟨iha.1, fun q h => by
        obtain ⟨p, _, hp, _, _⟩ := den_bin_iff.mp h
        exact iha.2 p hp⟩
    · rw [ha] at iha
      rcases hb : b.bindD g with eb | b'
      · rw [hb] at ihb
        exact ⟨ihb.1, fun q h => by
          obtain ⟨_, p, _, hp, _⟩ := den_bin_iff.mp h
          exact ihb.2 p hp⟩
      · rw [hb] at ihb
        obtain ⟨pa, da, va⟩ := iha
        obtain ⟨pb, db, vb⟩ := ihb
        refine ⟨by simp [Expr.plain, pa, pb], fun q => ?_, fun d hd => ?_⟩
        · rw [den_bin_iff, den_bin_iff]
          constructor
          · rintro ⟨p, q', h1, h2, h3⟩; exact ⟨p, q', (da p).mp h1, (db q').mp h2, h3⟩
          · rintro ⟨p, q', h1, h2, h3⟩; exact ⟨p, q', (da p).mpr h1, (db q').mpr h2, h3⟩
        · rw [vars_bin, List.mem_append] at hd
          rcases hd with hd | hd
          · exact (va d hd).mono (fun n hn => by simp [Expr.nodes]; exact .inl hn)
          · exact (vb d hd).mono (fun n hn => by simp [Expr.nodes]; exact .inr hn)
  | pow a n iha =>
    have iha := iha (fun s t h => hg s t (by simpa [Expr.nodes] using h))
    simp only [Expr.bindD]
    rcases ha : a.bindD g with ea | a'
    · rw [ha] at iha
      exact ⟨iha.1, fun q h => by
        obtain ⟨p, hp, _⟩ := den_pow_iff.mp h
        exact iha.2 p hp⟩
    · rw [ha] at iha
      obtain ⟨pa, da, va⟩ := iha
      refine ⟨by simpa [Expr.plain] using pa, fun q => ?_, fun d hd => ?_⟩
      · rw [den_pow_iff, den_pow_iff]
        constructor
        · rintro ⟨p, h1, h2⟩; exact ⟨p, (da p).mp h1, h2⟩
        · rintro ⟨p, h1, h2⟩; exact ⟨p, (da p).mpr h1, h2⟩
      · rw [vars_pow] at hd
        exact (va d hd).mono (fun n hn => by simpa [Expr.nodes] using hn)

/-- `expand` with fuel above the measure of every derivative it meets is a correct expansion -/
theorem expand_good (R : Ranked M rank Occ m) : ∀ (F : Nat) (e : Expr),
    (∀ s t, .deriv s t ∈ e.nodes → m (.deriv s t) < F ∧ Occ (.deriv s t)) → GoodX fn M rank Occ e (expand M F e)
  | 0, e, h => by
    simp only [expand]
    exact bindD_good _ e (fun s t hst => absurd (h s t hst).1 (Nat.not_lt_zero _))
  | F + 1, e, h => by
    simp only [expand]
    refine bindD_good _ e (fun s t hst => ?_)
    rcases ho : odeRhs M s t with _ | r
    · exact And.intro (by decide) (not_den_deriv ho)
    · dsimp only
      have ih := expand_good R F r (fun s' t' h' => by
        have hd := R.odeDec s t r ho _ h'
        have := R.mDer s' t' s t hd.2 hd.1
        have := (h s t hst).1
        exact ⟨by omega, hd.2⟩)
      rcases hx : expand M F r with err | r'
      · rw [hx] at ih
        exact ⟨ih.1, fun q hq => ih.2 q ((den_deriv_iff ho).mp hq)⟩
      · rw [hx] at ih
        obtain ⟨pr, dr, vr⟩ := ih
        refine ⟨pr, fun q => (den_deriv_iff ho).trans (dr q), fun d hd => ?_⟩
        rcases vr d hd with h1 | ⟨s', t', h1, h2, h3⟩
        · have := R.odeDec s t r ho _ h1
          exact .inr ⟨s, t, by simp [Expr.nodes], this.1, this.2⟩
        · have := R.odeDec s t r ho _ h1
          exact .inr ⟨s, t, by simp [Expr.nodes], by omega, h3⟩

-- ------------------------------------------------------------------------------------------------ the memo
/-- every entry of the `evaluated` dictionary is the value its variable denotes -/
def MemoOK (fn : Interp) (M : RModel) (memo : Memo) : Prop := ∀ d q, memo.lookup d = some q → Den fn M (.v d) q

theorem beq_ne {a b : Nat} (h : a ≠ b) : (a == b) = false := by simp [h]

theorem lookup_insertKey (k : Nat) (v : Rat) (l : Memo) (k' : Nat) :
    (insertKey k v l).lookup k' = if k' = k then some v else l.lookup k' := by
  induction l with
  | nil =>
    by_cases h : k' = k
    · subst h; simp [insertKey]
    · simp only [insertKey, List.lookup, beq_ne h, if_neg h]
  | cons p rest ih =>
    obtain ⟨a, b⟩ := p
    simp only [insertKey]
    by_cases hak : a = k
    · subst hak
      by_cases h : k' = a
      · subst h; simp
      · simp only [if_true, List.lookup, beq_ne h, if_neg h]
    · simp only [hak, if_false, List.lookup]
      by_cases h : k' = a
      · subst h; simp [hak]
      · rw [beq_ne h]; exact ih

theorem hasKey_cons (k : Nat) (a : Nat) (b : Rat) (rest : Memo) :
    hasKey k ((a, b) :: rest) = true ↔ a = k ∨ hasKey k rest = true := by
  simp only [hasKey, List.any_cons, Bool.or_eq_true, decide_eq_true_eq]

theorem hasKey_insertKey (k : Nat) (v : Rat) (l : Memo) (k' : Nat) :
    hasKey k' (insertKey k v l) = true ↔ k' = k ∨ hasKey k' l = true := by
  induction l with
  | nil =>
    simp only [insertKey, hasKey_cons]
    constructor
    · rintro (h | h)
      · exact .inl h.symm
      · exact .inr h
    · rintro (h | h)
      · exact .inl h.symm
      · exact .inr h
  | cons p rest ih =>
    obtain ⟨a, b⟩ := p
    simp only [insertKey]
    by_cases hak : a = k
    · subst hak
      simp only [if_true, hasKey_cons]
      constructor
      · rintro (h | h)
        · exact .inl h.symm
        · exact .inr (.inr h)
      · rintro (h | h | h)
        · exact .inl h.symm
        · exact .inl h
        · exact .inr h
    · simp only [hak, if_false, hasKey_cons, ih]
      constructor
      · rintro (h | h | h)
        · exact .inr (.inl h)
        · exact .inl h
        · exact .inr (.inr h)
      · rintro (h | h | h)
        · exact .inr (.inl h)
        · exact .inl h
        · exact .inr (.inr h)

theorem lookup_of_hasKey (l : Memo) (k : Nat) (h : hasKey k l = true) : ∃ q, l.lookup k = some q := by
  induction l with
  | nil => simp [hasKey] at h
  | cons p rest ih =>
    obtain ⟨a, b⟩ := p
    by_cases hk : k = a
    · subst hk; exact ⟨b, by simp [List.lookup]⟩
    · have h' : hasKey k rest = true := by
        rcases (hasKey_cons k a b rest).mp h with h | h
        · exact absurd h.symm hk
        · exact h
      obtain ⟨q, hq⟩ := ih h'
      exact ⟨q, by simp only [List.lookup, beq_ne hk]; exact hq⟩

theorem MemoOK.insert {memo : Memo} (h : MemoOK fn M memo) {d : Nat} {q : Rat} (hd : Den fn M (.v d) q) :
    MemoOK fn M (insertKey d q memo) := by
  intro k p hk
  rw [lookup_insertKey] at hk
  by_cases hkd : k = d
  · subst hkd; simp at hk; subst hk; exact hd
  · simp [hkd] at hk; exact h k p hk

-- ------------------------------------------------------------------------------------------------ evalE
/-- a plain expression can only denote something if each of its variables does -/
theorem den_needs_vars (e : Expr) : e.plain = true → ∀ q, Den fn M (.e e) q → ∀ d ∈ e.vars, ∃ q', Den fn M (.v d) q' := by
  induction e with
  | num _ => intro _ _ _ d hd; simp [Expr.vars, Expr.nodes] at hd
  | var v =>
    intro _ q h d hd
    simp [Expr.vars, Expr.nodes, Node.atoms] at hd
    subst hd; exact ⟨q, den_var_iff.mp h⟩
  | deriv _ _ => intro hp; simp [Expr.plain] at hp
  | opq id args ih =>
    intro hp q h d hd
    have hp' := (Expr.plainL_iff args).mp (by simpa [Expr.plain] using hp)
    obtain ⟨vals, hv, _⟩ := den_opq_iff.mp h
    obtain ⟨a, ha, hda⟩ := mem_vars_opq.mp hd
    obtain ⟨p, hpa⟩ := hv.mem ha
    exact ih a ha (hp' a ha) p hpa d hda
  | bin op a b iha ihb =>
    intro hp q h d hd
    simp only [Expr.plain, Bool.and_eq_true] at hp
    obtain ⟨p, q', h1, h2, _⟩ := den_bin_iff.mp h
    rw [vars_bin, List.mem_append] at hd
    rcases hd with hd | hd
    · exact iha hp.1 p h1 d hd
    · exact ihb hp.2 q' h2 d hd
  | pow a n iha =>
    intro hp q h d hd
    obtain ⟨p, h1, _⟩ := den_pow_iff.mp h
    exact iha (by simpa [Expr.plain] using hp) p h1 d (by simpa [vars_pow] using hd)

def GoodE (fn : Interp) (M : RModel) (e : Expr) : Except VErr Rat → Prop
  | .ok q => Den fn M (.e e) q
  | .error err => err ≠ .fuel ∧ ∀ q, ¬ Den fn M (.e e) q

def GoodEL (fn : Interp) (M : RModel) (es : List Expr) : Except VErr (List Rat) → Prop
  | .ok qs => Dens fn M es qs
  | .error err => err ≠ .fuel ∧ ∀ qs, ¬ Dens fn M es qs

theorem evalEL_good {memo : Memo} : ∀ (es : List Expr), (∀ a ∈ es, GoodE fn M a (evalE fn memo a)) →
    GoodEL fn M es (evalEL fn memo es)
  | [], _ => Dens.nil
  | a :: as, h => by
    have iha := h a (List.mem_cons_self ..)
    have ihs := evalEL_good as (fun x hx => h x (List.mem_cons_of_mem _ hx))
    simp only [evalEL]
    rcases ha : evalE fn memo a with ea | p
    · rw [ha] at iha
      exact And.intro iha.1 (fun qs hq => by
        obtain ⟨p, _, _, hp, _⟩ := dens_cons_iff.mp hq
        exact iha.2 p hp)
    · rw [ha] at iha
      rcases hs : evalEL fn memo as with es | ps
      · rw [hs] at ihs
        exact And.intro ihs.1 (fun qs hq => by
          obtain ⟨_, ps, _, _, hps⟩ := dens_cons_iff.mp hq
          exact ihs.2 ps hps)
      · rw [hs] at ihs
        exact Dens.cons iha ihs

theorem evalE_good {memo : Memo} (hm : MemoOK fn M memo) (e : Expr) : e.plain = true →
    (∀ d ∈ e.vars, hasKey d memo = true) → GoodE fn M e (evalE fn memo e) := by
  induction e with
  | num q => intro _ _; exact Den.num q
  | var v =>
    intro _ hk
    obtain ⟨q, hq⟩ := lookup_of_hasKey memo v (hk v (by simp [Expr.vars, Expr.nodes, Node.atoms]))
    simp only [evalE, hq]
    exact Den.var (hm v q hq)
  | deriv _ _ => intro hp; simp [Expr.plain] at hp
  | opq id args ih =>
    intro hp hk
    have hp' := (Expr.plainL_iff args).mp (by simpa [Expr.plain] using hp)
    have ihs := evalEL_good (fn := fn) (M := M) (memo := memo) args
      (fun a ha => ih a ha (hp' a ha) (fun d hd => hk d (mem_vars_opq.mpr ⟨a, ha, hd⟩)))
    simp only [evalE]
    rcases hs : evalEL fn memo args with es | vals
    · rw [hs] at ihs
      exact And.intro ihs.1 (fun q h => by
        obtain ⟨vals, hv, _⟩ := den_opq_iff.mp h
        exact ihs.2 vals hv)
    · rw [hs] at ihs
      dsimp only
      rcases hf : fn id vals with _ | r
      · refine And.intro (by decide) (fun r h => ?_)
        obtain ⟨vals', hv, hf'⟩ := den_opq_iff.mp h
        rw [dens_unique hv ihs, hf] at hf'; cases hf'
      · exact den_opq_iff.mpr ⟨vals, ihs, hf⟩
  | bin op a b iha ihb =>
    intro hp hk
    simp only [Expr.plain, Bool.and_eq_true] at hp
    have iha := iha hp.1 (fun d hd => hk d (by rw [vars_bin]; exact List.mem_append_left _ hd))
    have ihb := ihb hp.2 (fun d hd => hk d (by rw [vars_bin]; exact List.mem_append_right _ hd))
    simp only [evalE]
    rcases ha : evalE fn memo a with ea | p
    · rw [ha] at iha
      exact And.intro iha.1 (fun q h => by
        obtain ⟨p, _, hp', _, _⟩ := den_bin_iff.mp h
        exact iha.2 p hp')
    · rw [ha] at iha
      rcases hb : evalE fn memo b with eb | q
      · rw [hb] at ihb
        exact And.intro ihb.1 (fun r h => by
          obtain ⟨_, q', _, hq', _⟩ := den_bin_iff.mp h
          exact ihb.2 q' hq')
      · rw [hb] at ihb
        dsimp only
        rcases hab : applyBin op p q with _ | r
        · refine And.intro (by decide) (fun r h => ?_)
          obtain ⟨p', q', h1, h2, h3⟩ := den_bin_iff.mp h
          have := den_unique h1 iha; subst this
          have := den_unique h2 ihb; subst this
          rw [hab] at h3; cases h3
        · exact Den.bin iha ihb hab
  | pow a n iha =>
    intro hp hk
    have iha := iha (by simpa [Expr.plain] using hp) (fun d hd => hk d (by simpa [vars_pow] using hd))
    simp only [evalE]
    rcases ha : evalE fn memo a with ea | p
    · rw [ha] at iha
      exact And.intro iha.1 (fun q h => by
        obtain ⟨p, hp', _⟩ := den_pow_iff.mp h
        exact iha.2 p hp')
    · rw [ha] at iha
      dsimp only
      rcases hpw : powInt p n with _ | r
      · refine And.intro (by decide) (fun r h => ?_)
        obtain ⟨p', h1, h3⟩ := den_pow_iff.mp h
        have := den_unique h1 iha; subst this
        rw [hpw] at h3; cases h3
      · exact Den.pow iha hpw

-- ------------------------------------------------------------------------------------------------ evalDeps / getValueAux
def GoodV (fn : Interp) (M : RModel) (d : Nat) (memo : Memo) : Except VErr (Rat × Memo) → Prop
  | .ok (q, memo') => Den fn M (.v d) q ∧ MemoOK fn M memo' ∧ ∀ k, hasKey k memo = true → hasKey k memo' = true
  | .error err => err ≠ .fuel ∧ ∀ q, ¬ Den fn M (.v d) q

def GoodDeps (fn : Interp) (M : RModel) (ds : List Nat) (memo : Memo) : Except VErr Memo → Prop
  | .ok memo' => MemoOK fn M memo' ∧ (∀ k, hasKey k memo = true → hasKey k memo' = true) ∧ ∀ d ∈ ds, hasKey d memo' = true
  | .error err => err ≠ .fuel ∧ ∃ d ∈ ds, ∀ q, ¬ Den fn M (.v d) q

theorem evalDeps_good (rec : Nat → Memo → Except VErr (Rat × Memo)) (P : Nat → Prop)
    (hrec : ∀ d memo, MemoOK fn M memo → P d → GoodV fn M d memo (rec d memo)) :
    ∀ (ds : List Nat) (memo : Memo), MemoOK fn M memo → (∀ d ∈ ds, P d) → GoodDeps fn M ds memo (evalDeps rec ds memo)
  | [], memo, hm, _ => by
    simp only [evalDeps]
    exact ⟨hm, fun _ h => h, fun d hd => by cases hd⟩
  | d :: ds, memo, hm, hP => by
    simp only [evalDeps]
    by_cases hk : hasKey d memo = true
    · rw [if_pos hk]
      have ih := evalDeps_good rec P hrec ds memo hm (fun x hx => hP x (List.mem_cons_of_mem _ hx))
      rcases hr : evalDeps rec ds memo with err | memo'
      · rw [hr] at ih
        obtain ⟨h1, x, hx, h2⟩ := ih
        exact ⟨h1, x, List.mem_cons_of_mem _ hx, h2⟩
      · rw [hr] at ih
        obtain ⟨h1, h2, h3⟩ := ih
        refine ⟨h1, h2, fun x hx => ?_⟩
        rcases List.mem_cons.mp hx with rfl | hx
        · exact h2 _ hk
        · exact h3 x hx
    · rw [if_neg hk]
      have hd := hrec d memo hm (hP d (List.mem_cons_self ..))
      rcases hr : rec d memo with err | ⟨q, memo1⟩
      · rw [hr] at hd
        exact ⟨hd.1, d, List.mem_cons_self .., hd.2⟩
      · rw [hr] at hd
        obtain ⟨hq, hm1, hmono⟩ := hd
        dsimp only
        have ih := evalDeps_good rec P hrec ds (insertKey d q memo1) (hm1.insert hq)
          (fun x hx => hP x (List.mem_cons_of_mem _ hx))
        have hmono' : ∀ k, hasKey k memo = true → hasKey k (insertKey d q memo1) = true :=
          fun k hk' => (hasKey_insertKey d q memo1 k).mpr (.inr (hmono k hk'))
        rcases hr2 : evalDeps rec ds (insertKey d q memo1) with err | memo'
        · rw [hr2] at ih
          obtain ⟨h1, x, hx, h2⟩ := ih
          exact ⟨h1, x, List.mem_cons_of_mem _ hx, h2⟩
        · rw [hr2] at ih
          obtain ⟨h1, h2, h3⟩ := ih
          refine ⟨h1, fun k hk' => h2 k (hmono' k hk'), fun x hx => ?_⟩
          rcases List.mem_cons.mp hx with rfl | hx
          · exact h2 _ ((hasKey_insertKey _ q memo1 _).mpr (.inl rfl))
          · exact h3 x hx

theorem not_den_of_no_rhs {v : Nat} (hs : isState M v = false) {r : Expr} (hr : varRhs M v = some r)
    (hn : ∀ q, ¬ Den fn M (.e r) q) (q : Rat) : ¬ Den fn M (.v v) q := by
  intro h
  cases h with
  | state hs' _ => rw [hs] at hs'; cases hs'
  | defn _ hr' hd => rw [hr] at hr'; cases hr'; exact hn q hd
  | free _ hr' _ => rw [hr] at hr'; cases hr'

/-- **the evaluator is totally correct on ranked definitions**: with fuel above the measure of the variable (and
    expansion fuel above the measure of every derivative that occurs) `_get_value` returns the value the variable
    denotes and leaves a correct dictionary — or it raises something that is not `RecursionError`, and then the
    variable denotes nothing. -/
theorem getValueAux_good (fn : Interp) (R : Ranked M rank Occ m) (F : Nat) (hF : ∀ s t, Occ (.deriv s t) → m (.deriv s t) < F) :
    ∀ (f v : Nat) (memo : Memo), MemoOK fn M memo → m (.var v) < f → GoodV fn M v memo (getValueAux fn M F f v memo)
  | 0, _, _, _, h => absurd h (Nat.not_lt_zero _)
  | f + 1, v, memo, hm, hv => by
    simp only [getValueAux]
    by_cases hs : isState M v = true
    · rw [if_pos hs]
      rcases hi : initOf M.st v with _ | q
      · refine And.intro (by decide) (fun q h => ?_)
        cases h with
        | state _ hi' => rw [hi] at hi'; cases hi'
        | defn hs' _ _ => rw [hs] at hs'; cases hs'
        | free hs' _ _ => rw [hs] at hs'; cases hs'
      · exact ⟨Den.state hs hi, hm, fun _ h => h⟩
    · rw [if_neg hs]
      have hs : isState M v = false := by simpa using hs
      rcases hr : varRhs M v with _ | r
      · dsimp only
        by_cases hfv : freeVar M = some v
        · rw [if_pos hfv]; exact ⟨Den.free hs hr hfv, hm, fun _ h => h⟩
        · rw [if_neg hfv]
          refine And.intro (by decide) (fun q h => ?_)
          cases h with
          | state hs' _ => rw [hs] at hs'; cases hs'
          | defn _ hr' _ => rw [hr] at hr'; cases hr'
          | free _ _ hf => exact hfv hf
      · dsimp only
        have hx := expand_good (fn := fn) R F r (fun s t hst => by
          have := (R.varDec v r hr _ hst).2
          exact ⟨hF s t this, this⟩)
        rcases hex : expand M F r with err | r'
        · rw [hex] at hx
          exact And.intro hx.1 (not_den_of_no_rhs hs hr hx.2)
        · rw [hex] at hx
          obtain ⟨hplain, hden, hvars⟩ := hx
          dsimp only
          have hdeps := evalDeps_good (getValueAux fn M F f) (fun d => m (.var d) < f)
            (fun d memo' hm' hd => getValueAux_good fn R F hF f d memo' hm' hd) r'.vars memo hm (fun d hd => by
              show m (.var d) < f
              rcases hvars d hd with h1 | ⟨s, t, h1, h2, h3⟩
              · have := R.varDec v r hr _ h1
                have := R.mVar d v this.2 this.1
                omega
              · have := R.varDec v r hr _ h1
                have := R.mVar d v h3 (by omega)
                omega)
          rcases hdp : evalDeps (getValueAux fn M F f) r'.vars memo with err | memo'
          · rw [hdp] at hdeps
            obtain ⟨h1, d, hd, h2⟩ := hdeps
            refine And.intro h1 (not_den_of_no_rhs hs hr (fun q hq => ?_))
            obtain ⟨q', hq'⟩ := den_needs_vars r' hplain q ((hden q).mp hq) d hd
            exact h2 q' hq'
          · rw [hdp] at hdeps
            obtain ⟨hm', hmono, hkeys⟩ := hdeps
            dsimp only
            have he := evalE_good hm' r' hplain hkeys
            rcases hev : evalE fn memo' r' with err | q
            · rw [hev] at he
              exact And.intro he.1 (not_den_of_no_rhs hs hr (fun q hq => he.2 q ((hden q).mp hq)))
            · rw [hev] at he
              exact ⟨Den.defn hs hr ((hden q).mpr he), hm', hmono⟩

end
end Model
