import Cellml.Tie.Prelude
import Cellml.Load.Connect

/-! # What the translated functions of parser.py see of the loader's state

    The generated code refers to python attribute paths (`self.components[c].parent`, `variable.public_interface`,
    `source.assigned_to` …). The pattern tables of harness/code_specs.py bind each of them to one of the accessors below,
    which read the state of the hand-written model (`Load.Connect`). Core Lean only. -/

namespace Cellml.Tie
open Load

/-- a `Variable` object as the loader sees it: its flat identity and its declared attributes -/
abbrev VarObj := VRef × VarInfo

/-- the python spelling of an interface value -/
def ifaceStr : Iface → String
  | .none => "none"
  | .inn => "in"
  | .out => "out"

@[simp] theorem ifaceStr_eq_out (i : Iface) : (ifaceStr i == "out") = (i == .out) := by cases i <;> decide
@[simp] theorem ifaceStr_eq_in (i : Iface) : (ifaceStr i == "in") = (i == .inn) := by cases i <;> decide

/-- `Parser` as seen by `_determine_connection_direction` -/
structure LoaderView where
  /-- `self.components[c].parent` -/
  parent : String → Option String
  /-- `self.model.get_variable_by_name(self._get_variable_name(c, v))`; KeyError when there is no such variable -/
  getVar : String → String → Except PyErr VarObj

def loaderView (par : ParentMap) (vt : VarTable) : LoaderView where
  parent c := par.lookup c
  getVar c v := match vt.lookup (c, v) with
    | some i => .ok ((c, v), i)
    | none => .error ⟨"KeyError"⟩

end Cellml.Tie
