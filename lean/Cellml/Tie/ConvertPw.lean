import Cellml.Tie.ConvertCases

/-! # Tie, Piecewise branch of `convert_expression_recursively`: the `for` loop over ALL `(piece, cond)` pairs (generated)
    = the model's recursion along the chain `ite c t rest` -/

namespace Cellml.Tie.PConvert
open Units Infer Convert Cellml.Gen

section
variable (reg : Registry) (Γ : VarEnv)

local notation "GEN" => Gen.Convert.convertExpressionRecursively (convView reg Γ) (modelRec reg Γ)
local notation "MODEL" => fun e t => encConv (Convert.convert reg Γ e t)

/-- a well-formed Piecewise: a chain of pieces ending in `undef` -/
def isChain : E → Bool
  | .undef => true
  | .ite _ _ el => isChain el
  | _ => false

theorem mkPiecewise_pwArgs (x : E) (h : isChain x = true) : mkPiecewise (pwArgs x) = x := by
  induction x <;> simp_all [isChain, pwArgs, mkPiecewise, mkPair, pairOf]

/-- loop state of the Piecewise branch: `(to_units, actual_units, was_converted, new_args)` -/
abbrev PwSt := PyUnit × PyUnit × Bool × List E

/-- one iteration of the `for arg in expr.args` loop of the Piecewise branch -/
def pwStep (arg : E) (s : PwSt) : Except PyErr (ForInStep PwSt) :=
  match modelRec reg Γ (pairOf arg).1 s.1 with
  | .error e => .error e
  | .ok x =>
    match modelRec reg Γ (pairOf arg).2 (some []) with
    | .error e => .error e
    | .ok x1 =>
      .ok (.yield (if s.1.isNone then x.2.2 else s.1, x.2.2, x1.2.1 || (x.2.1 || s.2.2.1), s.2.2.2 ++ [mkPair x.1 x1.1]))

theorem pw_loop (el : E) : ∀ (tu : Container) (au0 : PyUnit) (wc0 : Bool) (acc : List E),
    isChain el = true → el ≠ .undef →
    match Convert.convert reg Γ el (some tu) with
    | .error e => forIn (pwArgs el) ((some tu, au0, wc0, acc) : PwSt) (pwStep reg Γ) = .error ⟨convCls e⟩
    | .ok re => forIn (pwArgs el) ((some tu, au0, wc0, acc) : PwSt) (pwStep reg Γ)
          = .ok (some tu, some re.u, re.wc || wc0, acc ++ pwArgs re.e) ∧ isChain re.e = true ∧ re.e ≠ .undef := by
  induction el with
  | ite c t el' ihc iht ih =>
    clear ihc iht
    intro tu au0 wc0 acc hch _
    simp only [isChain] at hch
    simp only [pwArgs, List.forIn_cons, pwStep, pairOf, mkPair, Convert.convert]
    cases ht : Convert.convert reg Γ t (some tu) with
    | error err => have := modelRec_error ht; mon
    | ok rt =>
      have h1 := modelRec_ok ht
      cases hc : Convert.convert reg Γ c (some []) with
      | error err => have := modelRec_error hc; mon
      | ok rc =>
        have h2 := modelRec_ok hc
        have it := (Convert.convert_ident ht).2
        have ic := (Convert.convert_ident hc).2
        by_cases hel : el' = .undef
        · subst hel
          mon
          cases hw1 : rt.wc <;> cases hw2 : rc.wc <;> simp_all [pwArgs, isChain, mkPair, pure, Except.pure]
        · have IH := ih tu (some rt.u) (rc.wc || (rt.wc || wc0)) (acc ++ [.ite rc.e rt.e .undef]) hch hel
          cases hre : Convert.convert reg Γ el' (some tu) with
          | error err => simp only [hre] at IH; mon; simpa [Bool.or_comm] using IH
          | ok re =>
            simp only [hre] at IH
            have ie := (Convert.convert_ident hre).2
            obtain ⟨IH1, IH2, IH3⟩ := IH
            mon
            cases hw1 : rt.wc <;> cases hw2 : rc.wc <;> cases hw3 : re.wc <;>
              simp_all [pwArgs, isChain, mkPair, pure, Except.pure]
  | undef => intro _ _ _ _ _ h; exact absurd rfl h
  | _ => intro _ _ _ _ h; simp [isChain] at h

theorem forIn_pw (F : E → PwSt → Except PyErr (ForInStep PwSt)) (hF : ∀ arg s, F arg s = pwStep reg Γ arg s)
    (xs : List E) (st : PwSt) : forIn xs st F = forIn xs st (pwStep reg Γ) := by
  have : F = pwStep reg Γ := by funext arg s; exact hF arg s
  rw [this]

theorem tie_ite (c t el : E) (tgt : PyUnit) (hch : isChain el = true) :
    GEN (.ite c t el) tgt = MODEL (.ite c t el) tgt := by
  branch
  simp only [Bool.false_eq_true, if_false, if_true]
  rw [forIn_pw reg Γ _ ?hF]
  case hF =>
    intro arg s
    simp only [pwStep]
    cases modelRec reg Γ (pairOf arg).1 s.1 with
    | error e => simp [bind, Except.bind, Except.map]
    | ok x =>
      cases modelRec reg Γ (pairOf arg).2 (some []) with
      | error e => simp [bind, Except.bind, Except.map]
      | ok x1 => cases h : s.1 <;> simp [bind, Except.bind, Except.map, pure, Except.pure, h]
  simp only [pwArgs, List.forIn_cons, pwStep, pairOf, mkPair]
  cases ht : Convert.convert reg Γ t tgt with
  | error err => have := modelRec_error ht; mon
  | ok rt =>
    have h1 := modelRec_ok ht
    cases hc : Convert.convert reg Γ c (some []) with
    | error err => have := modelRec_error hc; mon
    | ok rc =>
      have h2 := modelRec_ok hc
      have hst : (if tgt.isNone = true then some rt.u else tgt) = some (tgt.getD rt.u) := by cases tgt <;> rfl
      by_cases hel : el = .undef
      · subst hel
        mon
        cases hw1 : rt.wc <;> cases hw2 : rc.wc <;> simp [pwArgs, mkPiecewise, pairOf, pure, Except.pure]
      · have L := pw_loop reg Γ el (tgt.getD rt.u) (some rt.u) (rc.wc || (rt.wc || false))
          ([] ++ [.ite rc.e rt.e .undef]) hch hel
        cases hre : Convert.convert reg Γ el (some (tgt.getD rt.u)) with
        | error err =>
          simp only [hre] at L
          simp only [h1, h2, hst, bind, Except.bind, L, hre, hel, if_false, encConv_error]
        | ok re =>
          simp only [hre] at L
          obtain ⟨L1, L2, L3⟩ := L
          have hm := mkPiecewise_pwArgs re.e L2
          simp only [h1, h2, hst, bind, Except.bind, L1, hre, hel, if_false, encConv_ok, pure, Except.pure]
          cases hw1 : rt.wc <;> cases hw2 : rc.wc <;> cases hw3 : re.wc <;>
            simp [rebuild, mkPiecewise, pairOf, hm]

end
end Cellml.Tie.PConvert
