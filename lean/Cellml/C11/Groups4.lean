import Cellml.C11.Groups3

/-! C11 — `print_groups`, part 4: the sign extraction of `_print_Mul`. -/
namespace C11
set_option linter.unusedSimpArgs false

/-- an argument of a product, with its own factors if it is a product -/
def GoodItem (i : Item) : Prop := Good1 i.one ∧ (isMul i.e = true → ∀ f ∈ i.sub, Good1 f)

theorem good1_num (k : E) (hn : isNum k = true) (hk : numOK k = true) : Good1 (num1 k) := by
  have hw : wf .A k = true := by cases k <;> simp [isNum] at hn <;> simp_all [wf, numOK]
  have hl : isList k = false := by cases k <;> simp [isNum] at hn <;> rfl
  have := numDoc_ok k hw hn
  refine ⟨hw, hl, this.1, this.2, ?_⟩
  intro b x he; simp only [num1] at he; rw [he] at hn; simp [isNum] at hn

theorem isNum_negNum (e : E) (h : isNegNum e = true) : isNum (negNum e) = true := by
  cases e <;> simp [isNegNum] at h <;> rfl

theorem keepCoeffMul_good (k : E) (hn : isNum k = true) (hk : numOK k = true) (margs l : List Item1)
    (hm : ∀ f ∈ margs, Good1 f) (h : keepCoeffMul k margs = some l) : ∀ f ∈ l, Good1 f := by
  unfold keepCoeffMul at h
  split at h
  · simp at h
  next m rest =>
    split at h
    · split at h
      next a b =>
        split at h
        · simp at h; subst h; intro f hf; exact hm f (by simp [hf])
        · simp at h; subst h
          intro f hf; simp only [List.mem_cons] at hf
          rcases hf with rfl | hf
          · exact good1_num _ rfl rfl
          · exact hm f (by simp [hf])
      · simp at h
    · simp at h; subst h
      intro f hf; simp only [List.mem_cons] at hf
      rcases hf with rfl | hf
      · exact good1_num k hn hk
      · exact hm f (by simp [hf])

theorem mulItems_good (items : List Item) (hi : ∀ i ∈ items, GoodItem i) (sg : Bool) (fs : List Item1)
    (h : mulItems items = some (sg, fs)) : ∀ f ∈ fs, Good1 f := by
  have hone : ∀ l : List Item, (∀ i ∈ l, GoodItem i) → ∀ f ∈ l.map Item.one, Good1 f := by
    intro l hl f hf; simp only [List.mem_map] at hf; obtain ⟨i, hi', rfl⟩ := hf; exact (hl i hi').1
  unfold mulItems at h
  split at h
  next c rest =>
    have hrest : ∀ i ∈ rest, GoodItem i := fun i hi' => hi i (by simp [hi'])
    split at h
    next hneg =>
      have hkn := isNum_negNum c.e hneg
      simp only at h
      split at h
      · simp at h
      next hk =>
        simp only [Bool.not_eq_true', Bool.not_eq_false] at hk
        split at h
        · -- the coefficient is -1: the remainder is printed as it stands
          split at h
          next r =>
            simp at h; obtain ⟨_, rfl⟩ := h
            have hr := hrest r (by simp)
            split
            next hm => exact hr.2 hm
            · intro f hf; simp at hf; subst hf; exact hr.1
          · simp at h; obtain ⟨_, rfl⟩ := h; exact hone rest hrest
        · split at h
          · simp at h
          next r =>
            have hr := hrest r (by simp)
            split at h
            · simp at h; obtain ⟨_, rfl⟩ := h
              intro f hf; simp at hf; subst hf; exact good1_num _ hkn hk
            · split at h
              next a he =>
                simp at h; obtain ⟨_, rfl⟩ := h
                intro f hf; simp at hf
                rcases hf with rfl | rfl
                · exact good1_num _ hkn hk
                · exact hr.1
              next a he =>
                simp only [Option.map_eq_some_iff] at h
                obtain ⟨l, hl, hl2⟩ := h
                simp at hl2; obtain ⟨_, rfl⟩ := hl2
                exact keepCoeffMul_good _ hkn hk _ _ (hr.2 (by simp [he, isMul])) hl
              next =>
                split at h
                · simp at h; obtain ⟨_, rfl⟩ := h
                  intro f hf; simp at hf
                  rcases hf with rfl | rfl
                  · exact good1_num _ hkn hk
                  · exact hr.1
                · simp at h
          · simp only [Option.map_eq_some_iff] at h
            obtain ⟨l, hl, hl2⟩ := h
            simp at hl2; obtain ⟨_, rfl⟩ := hl2
            exact keepCoeffMul_good _ hkn hk _ _ (hone rest hrest) hl
    · simp at h; obtain ⟨_, rfl⟩ := h; exact hone _ hi
  · simp at h

end C11
