import Cellml.Tie.Loader
import Cellml.Tie.ConnLoopClosed
import Cellml.C17.Lift

/-! # Transfer lemmas: from the loader ties to statements whose subject is the GENERATED code

    * `symbolGenerator_fuel`  — the generated closure `symbol_generator` for EVERY loop bound (the tie
      `symbolGenerator_tie` is the instance `fuel = |mapping|`);
    * `genStages`, `genParse`, `genStages_eq`, `genParse_tie` — the generated `Parser.parse` run over stages in which
      the connection work list is the closed GENERATED loop (`genConnect`); `connect_err_class`: the classes it raises;
    * `parse_ok_iff`, `parse_error_of_loadFull`, `parse_isErr_iff`, `parse_ok_flat` — `genParse` succeeds / raises
      exactly when `C17.loadFull` does (corollaries of `parse_tie`);
    * `loadFull_ok_parts` — what a successful `loadFull` went through. -/

namespace Cellml.Tie.GenA
open Load Cellml.Gen Cellml.Tie

/-- the generated `symbol_generator` with its `while` cut off after `n` iterations, for every `n` -/
theorem symbolGenerator_fuel (vt : VarTable) (m : List (VRef × VRef)) (n : Nat) (cname x : String) :
    LoaderSym.symbolGenerator ⟨cname⟩ (varToSymbol vt) ⟨m⟩ n x =
      match checkIdent vt cname x with
      | .error e => .error ⟨e.className⟩
      | .ok () => .ok (some (resolve m n (cname, x))) := by
  unfold LoaderSym.symbolGenerator checkIdent varToSymbol
  show (do
    let out ← Py.whileUpTo n _ _ ((vt.lookup (cname, x)).map (fun _ => (cname, x)))
    _) = _
  cases h : vt.lookup (cname, x) with
  | none =>
    simp only [Option.map_none, whileUpTo_none]
    simp [bind, Except.bind, throw, throwThe, MonadExceptOf.throw, Err.className]
  | some i =>
    simp only [Option.map_some, whileUpTo_resolve]
    simp [bind, Except.bind, pure, Except.pure]

/-! ## the exception classes of the connection work list (needed to put the closed generated loop into `parse`) -/

theorem stepConn_err_class {reg : Registry} {vt : VarTable} {st : CState} {c : VRef × VRef} {e : Err}
    (h : stepConn reg vt st c = .error e) : C17.className e = e.className := by
  obtain ⟨s, t⟩ := c
  simp only [stepConn] at h
  split at h
  · cases h; rfl
  · split at h
    · cases h
    · split at h
      · cases h; rfl
      · cases h; rfl
      · split at h
        · split at h
          · cases h
          · split at h
            · cases h; rfl
            · cases h
        · cases h

theorem connectLoopF_err_class (reg : Registry) (vt : VarTable) : ∀ (n : Nat) (dq : List (VRef × VRef)) (unch : Nat)
    (st : CState) (e : Err), connectLoopF reg vt n dq unch st = some (.error e) → C17.className e = e.className
  | 0, _, _, _, _, h => by simp [connectLoopF] at h
  | n + 1, [], _, _, _, h => by simp [connectLoopF] at h
  | n + 1, c :: rest, unch, st, e, h => by
    simp only [connectLoopF] at h
    cases hs : stepConn reg vt st c with
    | error e' =>
      rw [hs] at h
      simp only [Option.some.injEq, Except.error.injEq] at h
      subst h
      exact stepConn_err_class hs
    | ok o =>
      rw [hs] at h
      cases o with
      | none =>
        simp only at h
        split at h
        · exact connectLoopF_err_class reg vt n _ _ _ _ h
        · simp only [Option.some.injEq, Except.error.injEq] at h; subst h; rfl
      | some st' => exact connectLoopF_err_class reg vt n _ _ _ _ h

theorem connect_err_class {reg : Registry} {vt : VarTable} {l : List (VRef × VRef)} {e : Err}
    (h : connect reg vt l = .error e) : C17.className e = e.className := by
  have := C17.connectLoopF_eq (C17.stepBound l.length 0) reg vt l 0 (Nat.zero_le _) (initState vt) (Nat.le_refl _)
  unfold connect at h
  rw [h] at this
  exact connectLoopF_err_class reg vt _ _ _ _ _ this

/-- the stages the generated `parse` is run over: those of the hand model (`parseView fd`, each tied or bound
    separately, see notes/reports/TIE_Loader.md), EXCEPT that the work list of `_add_connections` is the closed loop over
    the GENERATED loop test and loop body (`genConnect`), its exceptions passed on as raised -/
def genStages (fd : C17.FaultDoc) : ParseView :=
  { parseView fd with
    addConnections := fun d st => match st.units, st.par with
      | some (reg, ust), some par =>
        let vt := varTable ust d.doc.comps
        match directAll (d.doc.comps.map (·.name)) par vt d.doc.conns with
        | .error e => stageErr e
        | .ok dl => match genConnect reg vt dl with
          | .error e => .error e
          | .ok cst => .ok { st with loaded := some ⟨reg, ust, vt, par, dl, cst⟩ }
      | _, _ => notReady }

/-- with the closed generated loop in place of `Load.connect` the stages are the same functions -/
theorem genStages_eq (fd : C17.FaultDoc) : genStages fd = parseView fd := by
  have h : (genStages fd).addConnections = (parseView fd).addConnections := by
    funext d st
    simp only [genStages, parseView]
    cases st.units with
    | none => rfl
    | some u =>
      obtain ⟨reg, ust⟩ := u
      cases st.par with
      | none => rfl
      | some par =>
        simp only
        cases directAll (d.doc.comps.map (·.name)) par (varTable ust d.doc.comps) d.doc.conns with
        | error e => rfl
        | ok dl =>
          simp only
          rw [genConnect_eq]
          cases hc : connect reg (varTable ust d.doc.comps) dl with
          | error e => simp [errClass, stageErr, connect_err_class hc]
          | ok cst => rfl
  unfold genStages at h ⊢
  simp only at h
  rw [h]

/-- **the subject of the `…_gen` theorems about loading**: the generated `Parser.parse` on a fresh parser state -/
def genParse (fd : C17.FaultDoc) (us : Option Unit) : Except PyErr ParseState :=
  LoaderParse.parse (genStages fd) us {}

theorem genParse_tie (fd : C17.FaultDoc) (us : Option Unit) :
    (genParse fd us).map (·.flat) =
      match C17.loadFull fd with
      | .error e => .error ⟨C17.className e⟩
      | .ok F => .ok (some F) := by
  unfold genParse
  rw [genStages_eq]
  exact parse_tie fd us

/-- the generated `parse` returns a finished model exactly when `loadFull` does, and it is the same model -/
theorem parse_ok_iff (fd : C17.FaultDoc) (us : Option Unit) (F : Flat) :
    (genParse fd us).map (·.flat) = .ok (some F) ↔ C17.loadFull fd = .ok F := by
  rw [genParse_tie]
  cases C17.loadFull fd with
  | error e => simp
  | ok F' => simp

/-- the generated `parse` raises whenever `loadFull` does, with the class of `loadFull`'s error -/
theorem parse_error_of_loadFull {fd : C17.FaultDoc} (us : Option Unit) {e : Err} (h : C17.loadFull fd = .error e) :
    genParse fd us = .error ⟨C17.className e⟩ := by
  have := genParse_tie fd us
  rw [h] at this
  cases hp : genParse fd us with
  | error e' => rw [hp] at this; simpa [Except.map] using this
  | ok s => rw [hp] at this; simp [Except.map] at this

theorem parse_isErr_iff (fd : C17.FaultDoc) (us : Option Unit) :
    (∃ e, genParse fd us = .error e) ↔ ∃ e, C17.loadFull fd = .error e := by
  constructor
  · rintro ⟨e, he⟩
    have := genParse_tie fd us
    rw [he] at this
    cases hl : C17.loadFull fd with
    | error e' => exact ⟨e', rfl⟩
    | ok F => rw [hl] at this; simp [Except.map] at this
  · rintro ⟨e, he⟩
    exact ⟨_, parse_error_of_loadFull us he⟩

/-- the generated `parse` never returns a state without a finished model -/
theorem parse_ok_flat {fd : C17.FaultDoc} {us : Option Unit} {ps : ParseState}
    (h : genParse fd us = .ok ps) : ∃ F, ps.flat = some F ∧ C17.loadFull fd = .ok F := by
  have := genParse_tie fd us
  rw [h] at this
  cases hl : C17.loadFull fd with
  | error e => rw [hl] at this; simp [Except.map] at this
  | ok F =>
    rw [hl] at this
    simp only [Except.map, Except.ok.injEq] at this
    exact ⟨F, this, rfl⟩

/-- the stages a successful `loadFull` went through -/
theorem loadFull_ok_parts {fd : C17.FaultDoc} {F : Flat} (h : C17.loadFull fd = .ok F) :
    C17.schemaVars fd.doc = true ∧ fd.compUnits = [] ∧ fd.badEqs = [] ∧
    ∃ reg ust L, Units.addUnits 0 fd.udefs = .ok (reg, ust) ∧ C17.reactionErr ust fd = none ∧
      C17.prepareFrom reg ust fd.doc = .ok L ∧ C17.finishFrom L fd.doc = .ok F := by
  unfold C17.loadFull at h
  split at h
  · cases h
  · rename_i hs
    split at h
    · cases h
    · rename_i hc
      split at h
      · cases h
      · rename_i reg ust hu
        split at h
        · cases h
        · rename_i hr
          split at h
          · cases h
          · rename_i L hL
            split at h
            · cases h
            · rename_i hb
              refine ⟨by simpa using hs, by simpa using hc, ?_, reg, ust, L, hu, hr, hL, h⟩
              cases hbe : fd.badEqs with
              | nil => rfl
              | cons b r => rw [hbe] at hb; simp at hb

/-- … so it is `Load.loadFrom` on the units of the work list -/
theorem loadFull_ok_loadFrom {fd : C17.FaultDoc} {F : Flat} (h : C17.loadFull fd = .ok F) :
    ∃ reg ust, Units.addUnits 0 fd.udefs = .ok (reg, ust) ∧ C17.loadFrom reg ust fd.doc = .ok F := by
  obtain ⟨_, _, _, reg, ust, L, hu, _, hL, hF⟩ := loadFull_ok_parts h
  refine ⟨reg, ust, hu, ?_⟩
  unfold C17.loadFrom
  rw [hL]; exact hF

end Cellml.Tie.GenA
