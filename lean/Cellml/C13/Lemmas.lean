import Cellml.Model.Cmeta
import Cellml.C08.Lemmas

/-! Lemmas for C13 (core Lean only): the bijection between cmeta ids and live variables as a consequence of the C08
    invariant, the effect of each call on `live` / `cmetaOf`, the lookups, the `while has_cmeta_id` loop. -/

namespace Model

/-- **the bijection**: the registry is exactly "which live variable carries which id"; ids are pairwise distinct and
    distinct from the model's own id; `has_cmeta_id` is "the model's id or some live variable's id" -/
structure Bij (s : MState) : Prop where
  lookup_iff : ∀ c i, getVariableByCmetaId s c = some i ↔ (i ∈ s.live ∧ cmetaOf s i = some c)
  distinct : ∀ i ∈ s.live, ∀ j ∈ s.live, ∀ c, cmetaOf s i = some c → cmetaOf s j = some c → i = j
  notModel : ∀ i ∈ s.live, ∀ c, cmetaOf s i = some c → s.modelCmeta ≠ some c
  has_iff : ∀ c, hasCmetaId s c = true ↔ (s.modelCmeta = some c ∨ ∃ i ∈ s.live, cmetaOf s i = some c)

/-- invariant of the annotated state: the C08 invariant of the model, and the RDF graph is a set -/
structure AInv (a : AState) : Prop where
  inv : Inv a.m
  rdfNodup : a.rdf.Nodup

theorem bij_of_regInv {s : MState} (R : RegInv s) : Bij s := by
  have hl : ∀ c i, getVariableByCmetaId s c = some i ↔ (i ∈ s.live ∧ cmetaOf s i = some c) := by
    intro c i
    unfold getVariableByCmetaId
    rw [lookup_eq_some_iff s.cmetaMap c i (functional_of_keys_nodup s.cmetaMap R.cmetaKeys c)]
    exact R.cmetaIff c i
  refine ⟨hl, ?_, R.cmetaModel, ?_⟩
  · intro i hi j hj c hci hcj
    exact functional_of_keys_nodup s.cmetaMap R.cmetaKeys c i j ((R.cmetaIff c i).mpr ⟨hi, hci⟩)
      ((R.cmetaIff c j).mpr ⟨hj, hcj⟩)
  · intro c
    unfold hasCmetaId
    rw [Bool.or_eq_true, hasKey_iff]
    constructor
    · rintro (h | ⟨i, hi⟩)
      · left; simpa using h
      · right; exact ⟨i, (R.cmetaIff c i).mp hi⟩
    · rintro (h | ⟨i, hi⟩)
      · left; simp [h]
      · right; exact ⟨i, (R.cmetaIff c i).mpr hi⟩

theorem bij_of_inv {s : MState} (h : Inv s) : Bij s := bij_of_regInv h.reg

/-- looking an id up in the registry is looking for the live variable that carries it -/
theorem lookup_eq_carrier {s : MState} (B : Bij s) (c : String) : getVariableByCmetaId s c = carrierOf s c := by
  unfold carrierOf
  cases hf : s.live.find? (fun i => cmetaOf s i == some c) with
  | some i =>
    have hm := List.mem_of_find?_eq_some hf
    have hp := List.find?_some hf
    exact (B.lookup_iff c i).mpr ⟨hm, by simpa using hp⟩
  | none =>
    cases hl : getVariableByCmetaId s c with
    | none => rfl
    | some i =>
      obtain ⟨hi, hc⟩ := (B.lookup_iff c i).mp hl
      have := List.find?_eq_none.mp hf i hi
      simp [hc] at this

theorem lookup_none_iff {s : MState} (B : Bij s) (c : String) :
    getVariableByCmetaId s c = none ↔ ∀ i ∈ s.live, cmetaOf s i ≠ some c := by
  constructor
  · intro h i hi hc
    have := (B.lookup_iff c i).mpr ⟨hi, hc⟩
    rw [h] at this; cases this
  · intro h
    cases hl : getVariableByCmetaId s c with
    | none => rfl
    | some i =>
      obtain ⟨hi, hc⟩ := (B.lookup_iff c i).mp hl
      exact absurd hc (h i hi)

-- ------------------------------------------------------------------------------------------------ carriers
theorem carriers_congr {f g : String → Option Nat} (h : ∀ c, f c = g c) (l : List Triple) :
    carriers f l = carriers g l := by
  induction l with
  | nil => rfl
  | cons t r ih => simp only [carriers, h, ih]

theorem carriers_some {f : String → Option Nat} : ∀ {l : List Triple} {vs : List Nat}, carriers f l = some vs →
    vs.length = l.length ∧ ∀ v, v ∈ vs ↔ ∃ t ∈ l, f t.subj = some v := by
  intro l
  induction l with
  | nil => intro vs h; simp only [carriers, Option.some.injEq] at h; subst h; simp
  | cons t r ih =>
    intro vs h
    simp only [carriers] at h
    cases h1 : f t.subj with
    | none => simp [h1] at h
    | some v0 =>
      cases h2 : carriers f r with
      | none => simp [h1, h2] at h
      | some vs0 =>
        simp only [h1, h2, Option.some.injEq] at h
        subst h
        obtain ⟨hl, hm⟩ := ih h2
        refine ⟨by simp [hl], ?_⟩
        intro v
        simp only [List.mem_cons, hm, exists_eq_or_imp, h1, Option.some.injEq]
        constructor
        · rintro (rfl | h); exact Or.inl rfl; exact Or.inr h
        · rintro (rfl | h); exact Or.inl rfl; exact Or.inr h

theorem carriers_none {f : String → Option Nat} : ∀ {l : List Triple}, carriers f l = none ↔ ∃ t ∈ l, f t.subj = none := by
  intro l
  induction l with
  | nil => simp [carriers]
  | cons t r ih =>
    simp only [carriers, List.mem_cons, exists_eq_or_imp]
    cases h1 : f t.subj with
    | none => simp
    | some v0 =>
      cases h2 : carriers f r with
      | none => simp only [true_iff]; right; exact ih.mp h2
      | some vs0 =>
        constructor
        · intro h; cases h
        · rintro (h | ⟨x, hx, hn⟩)
          · cases h
          · have := ih.mpr ⟨x, hx, hn⟩
            rw [h2] at this; cases this

-- ------------------------------------------------------------------------------------------------ lookups
theorem carrierOf_some {s : MState} {c : String} {v : Nat} (h : carrierOf s c = some v) :
    v ∈ s.live ∧ cmetaOf s v = some c := by
  unfold carrierOf at h
  exact ⟨List.mem_of_find?_eq_some h, by simpa using List.find?_some h⟩

theorem carrierOf_of {s : MState} (B : Bij s) {c : String} {v : Nat} (hv : v ∈ s.live) (hc : cmetaOf s v = some c) :
    carrierOf s c = some v := by
  rw [← lookup_eq_carrier B]; exact (B.lookup_iff c v).mpr ⟨hv, hc⟩

theorem carrierOf_none {s : MState} {c : String} : carrierOf s c = none ↔ ∀ i ∈ s.live, cmetaOf s i ≠ some c := by
  unfold carrierOf
  rw [List.find?_eq_none]
  simp

theorem byRdf_eq_spec {a : AState} (B : Bij a.m) (p : String) (o : Option RNode) : byRdf a p o = byRdfSpec a p o := by
  unfold byRdf byRdfSpec
  rw [carriers_congr (lookup_eq_carrier B)]

/-- what a successful `get_variables_by_rdf` returns: one entry per matching triple, exactly the live variables whose
    current id is the subject of a matching triple, in `order_added` order -/
theorem byRdf_ok {a : AState} (B : Bij a.m) {p : String} {o : Option RNode} {vs : List Nat} (h : byRdf a p o = .ok vs) :
    vs.length = (a.rdf.filter (tripleMatches p o)).length ∧
    (∀ v, v ∈ vs ↔ v ∈ a.m.live ∧ ∃ t ∈ a.rdf, tripleMatches p o t = true ∧ cmetaOf a.m v = some t.subj) ∧
    vs.Pairwise (fun x y => orderOf a.m x ≤ orderOf a.m y) := by
  rw [byRdf_eq_spec B] at h
  unfold byRdfSpec at h
  cases hc : carriers (carrierOf a.m) (a.rdf.filter (tripleMatches p o)) with
  | none => rw [hc] at h; cases h
  | some ws =>
    rw [hc] at h
    simp only [Except.ok.injEq] at h
    subst h
    obtain ⟨hl, hm⟩ := carriers_some hc
    have hp := sortByKey_perm (orderOf a.m) ws
    refine ⟨by rw [hp.length_eq, hl], ?_, sortByKey_sorted _ _⟩
    intro v
    rw [hp.mem_iff, hm]
    constructor
    · rintro ⟨t, ht, hv⟩
      obtain ⟨ht1, ht2⟩ := List.mem_filter.mp ht
      obtain ⟨hv1, hv2⟩ := carrierOf_some hv
      exact ⟨hv1, t, ht1, ht2, hv2⟩
    · rintro ⟨hv1, t, ht1, ht2, hv2⟩
      exact ⟨t, List.mem_filter.mpr ⟨ht1, ht2⟩, carrierOf_of B hv1 hv2⟩

/-- `get_variables_by_rdf` raises (KeyError) exactly when a matching triple is about an id no live variable carries -/
theorem byRdf_error {a : AState} (B : Bij a.m) (p : String) (o : Option RNode) (e : LErr) :
    byRdf a p o = .error e ↔
      (e = .keyError ∧ ∃ t ∈ a.rdf, tripleMatches p o t = true ∧ ∀ i ∈ a.m.live, cmetaOf a.m i ≠ some t.subj) := by
  rw [byRdf_eq_spec B]
  unfold byRdfSpec
  cases hc : carriers (carrierOf a.m) (a.rdf.filter (tripleMatches p o)) with
  | some ws =>
    constructor
    · intro h; cases h
    · rintro ⟨_, t, ht, hm, hn⟩
      have := carriers_none.mpr ⟨t, List.mem_filter.mpr ⟨ht, hm⟩, carrierOf_none.mpr hn⟩
      rw [hc] at this; cases this
  | none =>
    obtain ⟨t, ht, hn⟩ := carriers_none.mp hc
    obtain ⟨ht1, ht2⟩ := List.mem_filter.mp ht
    constructor
    · intro h
      simp only [Except.error.injEq] at h
      exact ⟨h.symm, t, ht1, ht2, carrierOf_none.mp hn⟩
    · rintro ⟨rfl, _⟩; rfl

theorem tripleMatches_some (p : String) (x : RNode) (t : Triple) :
    tripleMatches p (some x) t = true ↔ t.pred = p ∧ t.obj = x := by
  simp [tripleMatches]

theorem tripleMatches_none (p : String) (t : Triple) : tripleMatches p none t = true ↔ t.pred = p := by
  simp [tripleMatches]

theorem sortByKey_singleton {key : Nat → Nat} {l : List Nat} {v : Nat} (h : sortByKey key l = [v]) : l = [v] := by
  have hp := sortByKey_perm key l
  rw [h] at hp
  exact List.perm_singleton.mp hp.symm

theorem carriers_singleton {f : String → Option Nat} {l : List Triple} {v : Nat} (h : carriers f l = some [v]) :
    ∃ t, l = [t] ∧ f t.subj = some v := by
  match l, h with
  | [t], h =>
    simp only [carriers] at h
    cases h1 : f t.subj with
    | none => simp [h1] at h
    | some w => simp [h1] at h; subst h; exact ⟨t, rfl, h1⟩
  | [], h => simp [carriers] at h
  | t :: u :: r, h =>
    have := (carriers_some h).1
    simp at this

/-- `get_variable_by_ontology_term(term)` returns `v` exactly when one triple says `… bqbiol:is term` and its subject
    is the id `v` carries now -/
theorem byTerm_ok_iff {a : AState} (B : Bij a.m) (term : RNode) (v : Nat) :
    byTerm a term = .ok v ↔
      ∃ c, a.rdf.filter (tripleMatches bqbiolIs (some term)) = [⟨c, bqbiolIs, term⟩] ∧ v ∈ a.m.live ∧
        cmetaOf a.m v = some c := by
  unfold byTerm
  rw [byRdf_eq_spec B]
  unfold byRdfSpec
  constructor
  · intro h
    cases hc : carriers (carrierOf a.m) (a.rdf.filter (tripleMatches bqbiolIs (some term))) with
    | none => rw [hc] at h; cases h
    | some ws =>
      rw [hc] at h
      simp only at h
      cases hs : sortByKey (orderOf a.m) ws with
      | nil => rw [hs] at h; cases h
      | cons x r =>
        cases r with
        | cons y r' => rw [hs] at h; cases h
        | nil =>
          rw [hs] at h
          simp only [Except.ok.injEq] at h
          subst h
          have hw := sortByKey_singleton hs
          subst hw
          obtain ⟨t, hl, hf⟩ := carriers_singleton hc
          obtain ⟨hv1, hv2⟩ := carrierOf_some hf
          have ht : t ∈ a.rdf.filter (tripleMatches bqbiolIs (some term)) := by rw [hl]; exact List.mem_singleton.mpr rfl
          obtain ⟨hp, ho⟩ := (tripleMatches_some _ _ _).mp (List.mem_filter.mp ht).2
          refine ⟨t.subj, ?_, hv1, hv2⟩
          rw [hl]
          cases t
          simp only at hp ho
          subst hp ho
          rfl
  · rintro ⟨c, hl, hv1, hv2⟩
    rw [hl]
    simp only [carriers, carrierOf_of B hv1 hv2]
    rfl

/-- no triple says `… bqbiol:is term`: KeyError -/
theorem byTerm_none {a : AState} (term : RNode) (h : a.rdf.filter (tripleMatches bqbiolIs (some term)) = []) :
    byTerm a term = .error .keyError := by
  unfold byTerm byRdf
  rw [h]
  rfl

theorem termsOf_mem {a : AState} {v : Nat} {ns : Option String} {x : String} :
    x ∈ termsOf a v ns ↔
      ∃ t ∈ a.rdf, cmetaOf a.m v = some t.subj ∧ t.pred = bqbiolIs ∧ nsOk ns t.obj = true ∧ localName t.obj.text = x := by
  unfold termsOf annotationsOf
  cases hc : cmetaOf a.m v with
  | none => simp
  | some c =>
    simp only [List.mem_map, List.mem_filter, Bool.and_eq_true, beq_iff_eq, Option.some.injEq]
    constructor
    · rintro ⟨t, ⟨⟨ht, hs, hp⟩, hn⟩, hx⟩
      exact ⟨t, ht, hs.symm, hp, hn, hx⟩
    · rintro ⟨t, ht, hs, hp, hn, hx⟩
      exact ⟨t, ⟨⟨ht, hs.symm, hp⟩, hn⟩, hx⟩

/-- the annotation found a variable by is reachable through that variable -/
theorem byTerm_reachable {a : AState} (B : Bij a.m) {term : RNode} {v : Nat} (h : byTerm a term = .ok v) :
    localName term.text ∈ termsOf a v none := by
  obtain ⟨c, hl, _, hv2⟩ := (byTerm_ok_iff B term v).mp h
  have ht : (⟨c, bqbiolIs, term⟩ : Triple) ∈ a.rdf.filter (tripleMatches bqbiolIs (some term)) := by
    rw [hl]; exact List.mem_singleton.mpr rfl
  exact termsOf_mem.mpr ⟨_, (List.mem_filter.mp ht).1, hv2, rfl, rfl, rfl⟩

-- ------------------------------------------------------------------------------------------------ effect of each call
/-- what a call may do to the variables and their ids, as far as this property can see it -/
structure SameIds (s s' : MState) : Prop where
  live : s'.live = s.live
  cmeta : ∀ i, cmetaOf s' i = cmetaOf s i
  model : s'.modelCmeta = s.modelCmeta

theorem SameIds.refl (s : MState) : SameIds s s := ⟨rfl, fun _ => rfl, rfl⟩

theorem SameIds.trans {s t u : MState} (h1 : SameIds s t) (h2 : SameIds t u) : SameIds s u :=
  ⟨h2.live.trans h1.live, fun i => (h2.cmeta i).trans (h1.cmeta i), h2.model.trans h1.model⟩

theorem sameIds_of_heap {s s' : MState} (hh : s'.heap = s.heap) (hl : s'.live = s.live)
    (hm : s'.modelCmeta = s.modelCmeta) : SameIds s s' :=
  ⟨hl, fun i => by unfold cmetaOf; rw [hh], hm⟩

theorem removeEquation_frame (s : MState) (e : Eqn) :
    (removeEquation s e).1.heap = s.heap ∧ (removeEquation s e).1.live = s.live ∧
    (removeEquation s e).1.modelCmeta = s.modelCmeta ∧ (removeEquation s e).1.cmetaMap = s.cmetaMap := by
  unfold removeEquation
  split
  · exact ⟨rfl, rfl, rfl, rfl⟩
  · split <;> (try split) <;> exact ⟨rfl, rfl, rfl, rfl⟩

theorem addEquationCore_frame (s : MState) (e : Eqn) (b : Bool) :
    (addEquationCore s e b).1.heap = s.heap ∧ (addEquationCore s e b).1.live = s.live ∧
    (addEquationCore s e b).1.modelCmeta = s.modelCmeta := by
  unfold addEquationCore
  split
  · split
    · exact ⟨rfl, rfl, rfl⟩
    · split <;> exact ⟨rfl, rfl, rfl⟩
  · split <;> exact ⟨rfl, rfl, rfl⟩
  · exact ⟨rfl, rfl, rfl⟩

theorem cmetaOf_applyTypes (s : MState) (rel : List Nat) (tm : List (Nat × VType)) (i : Nat) :
    ((applyTypes s.heap rel tm)[i]?).bind (·.cmeta) = cmetaOf s i := by
  unfold cmetaOf
  rw [getElem?_applyTypes]
  cases s.heap[i]? with
  | none => rfl
  | some v => simp only [Option.map_some, Option.bind_some]; split <;> rfl

theorem queryGraph_sameIds (s : MState) : SameIds s (queryGraph s).1 := by
  unfold queryGraph
  split
  · exact SameIds.refl s
  · split
    · exact ⟨rfl, fun i => cmetaOf_applyTypes s _ _ i, rfl⟩
    · exact ⟨rfl, fun i => cmetaOf_applyTypes s _ _ i, rfl⟩

theorem queryGraphNum_sameIds (s : MState) : SameIds s (queryGraphNum s).1 := by
  unfold queryGraphNum
  split
  · exact SameIds.refl s
  · have h := queryGraph_sameIds s
    split
    · rename_i s' g heq; rw [heq] at h; exact ⟨h.live, h.cmeta, h.model⟩
    · rename_i s' g heq; rw [heq] at h; exact h

theorem cmetaOf_ge {s : MState} {i : Nat} (h : s.heap.length ≤ i) : cmetaOf s i = none := by
  unfold cmetaOf; rw [List.getElem?_eq_none h]; rfl

/-- `add_variable` raises when the name or the cmeta id (a variable's or the model's own) is in use … -/
theorem addVariable_raised {s : MState} {n : String} {c : Option String} {iv : Option Rat}
    (h : nameTaken s n = true ∨ cmetaTaken s c = true) : addVariable s n c iv = (s, .raised .valueError) := by
  unfold addVariable
  unfold nameTaken at h
  rcases h with h | h
  · rw [if_pos h]
  · split <;> first | rfl | simp [h]

/-- … and otherwise creates variable number `heap.length` carrying exactly the id asked for -/
theorem addVariable_ok {s : MState} {n : String} {c : Option String} {iv : Option Rat}
    (h1 : nameTaken s n = false) (h2 : cmetaTaken s c = false) :
    (addVariable s n c iv).2 = .ok ∧ (addVariable s n c iv).1.live = s.live ++ [s.heap.length] ∧
    (addVariable s n c iv).1.heap.length = s.heap.length + 1 ∧
    (addVariable s n c iv).1.modelCmeta = s.modelCmeta ∧
    (∀ i, cmetaOf (addVariable s n c iv).1 i = if i = s.heap.length then c else cmetaOf s i) ∧
    (∀ i, i < s.heap.length → nameOfVar (addVariable s n c iv).1 i = nameOfVar s i) ∧
    nameOfVar (addVariable s n c iv).1 s.heap.length = n := by
  unfold addVariable
  unfold nameTaken at h1
  rw [if_neg (by simp [h1]), if_neg (by simp [h2])]
  refine ⟨rfl, rfl, by simp [invalidate], rfl, ?_, ?_, ?_⟩
  · intro i
    show ((s.heap ++ [_])[i]?).bind (·.cmeta) = _
    by_cases hi : i = s.heap.length
    · subst hi; simp
    · rw [if_neg hi]
      by_cases hlt : i < s.heap.length
      · rw [List.getElem?_append_left hlt]; rfl
      · have hge : s.heap.length + 1 ≤ i := by omega
        rw [List.getElem?_eq_none (by simp; omega), cmetaOf_ge (by omega)]; rfl
  · intro i hi
    show nameOf ((s.heap ++ [_]).map Var.name) i = nameOf (s.heap.map Var.name) i
    unfold nameOf
    simp only [List.map_append, List.getElem?_append_left (by simpa using hi : i < (s.heap.map Var.name).length)]
  · show nameOf ((s.heap ++ [_]).map Var.name) s.heap.length = n
    unfold nameOf
    simp

theorem transferCmetaId_raised {s : MState} {src dst : Nat} (hs : src ∈ s.live) (hd : dst ∈ s.live)
    (h : cmetaOf s src = none ∨ (cmetaOf s dst).isSome = true) :
    transferCmetaId s src dst = (s, .raised .valueError) := by
  unfold transferCmetaId
  have h1 : isLive s src = true := by simpa [isLive] using hs
  have h2 : isLive s dst = true := by simpa [isLive] using hd
  simp only [h1, h2, Bool.not_true, Bool.or_self, Bool.false_eq_true, if_false]
  cases hcs : cmetaOf s src with
  | none => rfl
  | some c =>
    cases hcd : cmetaOf s dst with
    | none => rcases h with h | h <;> simp_all
    | some d => rfl

/-- `transfer_cmeta_id` that succeeds: the source loses the id, the target gains it, nothing else changes -/
theorem transferCmetaId_ok {s : MState} (R : RegInv s) {src dst : Nat} {c : String} (hs : src ∈ s.live)
    (hd : dst ∈ s.live) (hcs : cmetaOf s src = some c) (hcd : cmetaOf s dst = none) :
    (transferCmetaId s src dst).2 = .ok ∧ (transferCmetaId s src dst).1.live = s.live ∧
    (transferCmetaId s src dst).1.heap.length = s.heap.length ∧
    (transferCmetaId s src dst).1.modelCmeta = s.modelCmeta ∧
    (∀ i, cmetaOf (transferCmetaId s src dst).1 i = if i = src then none else if i = dst then some c else cmetaOf s i) ∧
    nameOfVar (transferCmetaId s src dst).1 = nameOfVar s := by
  have hslt := R.liveBound src hs
  have hdlt := R.liveBound dst hd
  unfold transferCmetaId
  have h1 : isLive s src = true := by simpa [isLive] using hs
  have h2 : isLive s dst = true := by simpa [isLive] using hd
  simp only [h1, h2, Bool.not_true, Bool.or_self, Bool.false_eq_true, if_false, hcs, hcd]
  refine ⟨by first | rfl | trivial, by first | rfl | trivial, by simp [length_setVar], by first | rfl | trivial, ?_, ?_⟩
  · intro i
    show ((setVar (setVar s.heap dst _) src _)[i]?).bind (·.cmeta) = _
    rw [cmeta_setVar _ src i none (by rw [length_setVar]; exact hslt)]
    by_cases h1 : i = src
    · simp [h1]
    · simp only [h1, if_false]; exact cmeta_setVar s.heap dst i (some c) hdlt
  · funext i
    show nameOf ((setVar (setVar s.heap dst _) src _).map (·.name)) i = _
    rw [nameOf_setVar_cmeta, nameOf_setVar_cmeta]; rfl

-- ------------------------------------------------------------------------------------------------ the `+= '_'` loop
/-- the candidates of `while self.has_cmeta_id(cmeta_id): cmeta_id += '_'`: `c`, `c_`, `c__`, … -/
def cand (c : String) : Nat → String
  | 0 => c
  | k + 1 => cand (c ++ "_") k

theorem cand_length (c : String) (k : Nat) : (cand c k).length = c.length + k := by
  induction k generalizing c with
  | zero => rfl
  | succ k ih =>
    show (cand (c ++ "_") k).length = _
    rw [ih, String.length_append]
    show c.length + 1 + k = _
    omega

theorem cand_inj (c : String) (i j : Nat) (h : cand c i = cand c j) : i = j := by
  have := congrArg String.length h
  rw [cand_length, cand_length] at this
  omega

theorem freeCmeta_none {s : MState} : ∀ (n : Nat) (c : String), freeCmeta s c n = none →
    ∀ k, k ≤ n → hasCmetaId s (cand c k) = true := by
  intro n
  induction n with
  | zero =>
    intro c h k hk
    have : k = 0 := by omega
    subst this
    unfold freeCmeta at h
    by_cases hh : hasCmetaId s c = true
    · exact hh
    · simp [hh] at h
  | succ n ih =>
    intro c h k hk
    unfold freeCmeta at h
    by_cases hh : hasCmetaId s c = true
    · simp only [hh, if_true] at h
      cases k with
      | zero => exact hh
      | succ k => exact ih _ h k (by omega)
    · simp [hh] at h

theorem freeCmeta_some {s : MState} : ∀ (n : Nat) (c c' : String), freeCmeta s c n = some c' →
    ∃ k, k ≤ n ∧ c' = cand c k ∧ (∀ j, j < k → hasCmetaId s (cand c j) = true) ∧ hasCmetaId s c' = false := by
  intro n
  induction n with
  | zero =>
    intro c c' h
    unfold freeCmeta at h
    by_cases hh : hasCmetaId s c = true
    · simp [hh] at h
    · simp [hh] at h; subst h
      exact ⟨0, Nat.le_refl _, rfl, fun j hj => absurd hj (Nat.not_lt_zero _), by simpa using hh⟩
  | succ n ih =>
    intro c c' h
    unfold freeCmeta at h
    by_cases hh : hasCmetaId s c = true
    · simp only [hh, if_true] at h
      obtain ⟨k, hk, he, hall, hfree⟩ := ih _ _ h
      refine ⟨k + 1, by omega, he, ?_, hfree⟩
      intro j hj
      cases j with
      | zero => exact hh
      | succ j => exact hall j (by omega)
    · simp [hh] at h; subst h
      exact ⟨0, Nat.zero_le _, rfl, fun j hj => absurd hj (Nat.not_lt_zero _), by simpa using hh⟩

/-- pigeonhole: a list cannot contain `length + 1` different strings -/
theorem pigeon (f : Nat → String) (hf : ∀ i j, f i = f j → i = j) :
    ∀ (n : Nat) (u : List String), u.length = n → ¬ (∀ k, k ≤ n → f k ∈ u) := by
  intro n
  induction n with
  | zero =>
    intro u hu h
    have := h 0 (Nat.le_refl _)
    rw [List.length_eq_zero_iff.mp hu] at this
    cases this
  | succ n ih =>
    intro u hu h
    have hm := h (n + 1) (Nat.le_refl _)
    refine ih (u.erase (f (n + 1))) (by rw [List.length_erase_of_mem hm, hu]; rfl) ?_
    intro k hk
    have hne : f k ≠ f (n + 1) := fun e => by have := hf _ _ e; omega
    exact (List.mem_erase_of_ne hne).mpr (h k (by omega))

/-- the ids `has_cmeta_id` answers True for -/
def usedIds (s : MState) : List String := s.modelCmeta.toList ++ s.cmetaMap.map (·.1)

theorem mem_usedIds {s : MState} {c : String} (h : hasCmetaId s c = true) : c ∈ usedIds s := by
  unfold hasCmetaId at h
  unfold usedIds
  rw [Bool.or_eq_true] at h
  rcases h with h | h
  · have : s.modelCmeta = some c := by simpa using h
    simp [this]
  · exact List.mem_append_right _ ((hasKey_iff_mem_keys c s.cmetaMap).mp h)

/-- **the loop terminates**: with `|registry| + 1` rounds of fuel an unused candidate is always reached -/
theorem freeCmeta_isSome (s : MState) (c : String) : (freeCmeta s c (s.cmetaMap.length + 1)).isSome = true := by
  cases h : freeCmeta s c (s.cmetaMap.length + 1) with
  | some _ => rfl
  | none =>
    exfalso
    have hall := freeCmeta_none _ _ h
    have hlen : (usedIds s).length ≤ s.cmetaMap.length + 1 := by
      unfold usedIds
      cases s.modelCmeta <;> simp
    exact pigeon (cand c) (cand_inj c) (usedIds s).length (usedIds s) rfl
      (fun k hk => mem_usedIds (hall k (by omega)))

/-- `add_cmeta_id` on a variable without id: never the conventional `cmetaFuel` answer; the id generated is the first
    candidate `base`, `base_`, `base__`, … that is neither a variable's id nor the model's; only this variable changes -/
theorem addCmetaId_ok {s : MState} (R : RegInv s) {v : Nat} (hv : v ∈ s.live) (hc : cmetaOf s v = none) :
    ∃ (c : String) (k : Nat), c = cand ((nameOfVar s v).replace "$" "__") k ∧
      (∀ j, j < k → hasCmetaId s (cand ((nameOfVar s v).replace "$" "__") j) = true) ∧
      hasCmetaId s c = false ∧
      (addCmetaId s v).2 = .ok ∧ (addCmetaId s v).1.live = s.live ∧
      (addCmetaId s v).1.heap.length = s.heap.length ∧ (addCmetaId s v).1.modelCmeta = s.modelCmeta ∧
      (∀ i, cmetaOf (addCmetaId s v).1 i = if i = v then some c else cmetaOf s i) ∧
      nameOfVar (addCmetaId s v).1 = nameOfVar s := by
  have hlt := R.liveBound v hv
  have hl : isLive s v = true := by simpa [isLive] using hv
  have hsome := freeCmeta_isSome s ((nameOfVar s v).replace "$" "__")
  cases hf : freeCmeta s ((nameOfVar s v).replace "$" "__") (s.cmetaMap.length + 1) with
  | none => rw [hf] at hsome; cases hsome
  | some c =>
    obtain ⟨k, _, he, hall, hfree⟩ := freeCmeta_some _ _ _ hf
    refine ⟨c, k, he, hall, hfree, ?_⟩
    unfold addCmetaId
    simp only [hl, Bool.not_true, Bool.false_eq_true, if_false, hc, hf]
    refine ⟨by first | rfl | trivial, by first | rfl | trivial, by simp [length_setVar], by first | rfl | trivial, ?_, ?_⟩
    · intro i; exact cmeta_setVar s.heap v i (some c) hlt
    · funext i; exact nameOf_setVar_cmeta s.heap v i (some c)

theorem addCmetaId_noop {s : MState} {v : Nat} (h : v ∉ s.live ∨ (cmetaOf s v).isSome = true) :
    (addCmetaId s v).1 = s := by
  unfold addCmetaId
  by_cases hl : isLive s v = true
  · simp only [hl, Bool.not_true, Bool.false_eq_true, if_false]
    cases hc : cmetaOf s v with
    | some c => rfl
    | none => rcases h with h | h
              · exact absurd (by simpa [isLive] using hl) h
              · rw [hc] at h; cases h
  · have : isLive s v = false := by simpa using hl
    simp [this]

-- ------------------------------------------------------------------------------------------------ remove_variable
theorem removeVariableA_m (a : AState) (v : Nat) :
    (removeVariableA a v).1.m = (removeVariable a.m v).1 ∧ (removeVariableA a v).2 = (removeVariable a.m v).2 := by
  unfold removeVariableA removeVariable
  by_cases hl : isLive a.m v = true
  · simp only [hl, Bool.not_true, Bool.false_eq_true, if_false]
    cases hd : getDefinition a.m v with
    | none => exact ⟨rfl, rfl⟩
    | some e =>
      simp only
      cases hr : removeEquation a.m e with
      | mk s1 out => cases out <;> exact ⟨rfl, rfl⟩
  · have : isLive a.m v = false := by simpa using hl
    simp [this]

theorem unregister_effect {s1 : MState} (h1 : Inv s1) {v : Nat} (hv : v ∈ s1.live) :
    (unregister s1 v).2 = .ok ∧ (unregister s1 v).1.live = s1.live.erase v ∧ (unregister s1 v).1.heap = s1.heap ∧
    (unregister s1 v).1.modelCmeta = s1.modelCmeta := by
  have hok := (inv_unregister h1 v hv).2
  refine ⟨hok, ?_⟩
  unfold unregister at hok ⊢
  cases hc : cmetaOf s1 v with
  | none => exact ⟨rfl, rfl, rfl⟩
  | some c =>
    simp only [hc] at hok ⊢
    by_cases hk : hasKey c s1.cmetaMap = true
    · simp only [hk, if_true]; exact ⟨rfl, rfl, rfl⟩
    · simp [hk] at hok

/-- `remove_variable` of a variable of the model: it leaves `variables()`, nobody's id changes, exactly the triples
    about its id are deleted -/
theorem removeVariableA_ok {a : AState} (h : Inv a.m) {v : Nat} (hv : v ∈ a.m.live) :
    (removeVariableA a v).2 = .ok ∧ (removeVariableA a v).1.m.live = a.m.live.erase v ∧
    (removeVariableA a v).1.m.modelCmeta = a.m.modelCmeta ∧
    (∀ i, cmetaOf (removeVariableA a v).1.m i = cmetaOf a.m i) ∧
    (removeVariableA a v).1.rdf = dropSubject (cmetaOf a.m v) a.rdf := by
  have hl : isLive a.m v = true := by simpa [isLive] using hv
  unfold removeVariableA
  simp only [hl, Bool.not_true, Bool.false_eq_true, if_false]
  cases hd : getDefinition a.m v with
  | none =>
    obtain ⟨k1, k2, k3, k4⟩ := unregister_effect h hv
    exact ⟨k1, k2, k4, fun i => by unfold cmetaOf; rw [k3], rfl⟩
  | some e =>
    have he := getDefinition_mem h.eq v e hd
    obtain ⟨f1, f2, f3, _⟩ := removeEquation_frame a.m e
    have hinv := inv_removeEquation h e
    have hokE : (removeEquation a.m e).2 = .ok := by
      rcases removeEquation_cases h.eq e with ⟨hne, _⟩ | ⟨w, _, _, hr⟩ | ⟨st, t, o, _, _, hr⟩
      · exact absurd he hne
      · rw [hr]
      · rw [hr]
    simp only
    cases hr : removeEquation a.m e with
    | mk s1 out =>
      rw [hr] at hokE f1 f2 f3 hinv
      simp only at hokE f1 f2 f3 hinv
      subst hokE
      simp only
      obtain ⟨k1, k2, k3, k4⟩ := unregister_effect hinv (by rw [f2]; exact hv)
      refine ⟨k1, by rw [k2, f2], by rw [k4, f3], fun i => by unfold cmetaOf; rw [k3, f1], ?_⟩
      unfold cmetaOf; rw [f1]

theorem mem_dropSubject {c : Option String} {rdf : List Triple} {t : Triple} :
    t ∈ dropSubject c rdf ↔ t ∈ rdf ∧ c ≠ some t.subj := by
  unfold dropSubject
  cases c with
  | none => simp
  | some c =>
    simp only [List.mem_filter, bne_iff_ne, ne_eq, Option.some.injEq]
    constructor
    · rintro ⟨h1, h2⟩; exact ⟨h1, fun e => h2 e.symm⟩
    · rintro ⟨h1, h2⟩; exact ⟨h1, fun e => h2 e.symm⟩

-- ------------------------------------------------------------------------------------------------ the invariant
theorem dropSubject_sublist (c : Option String) (rdf : List Triple) : (dropSubject c rdf).Sublist rdf := by
  unfold dropSubject
  cases c with
  | none => exact List.Sublist.refl _
  | some c => exact List.filter_sublist

theorem removeVariableA_rdf (a : AState) (v : Nat) :
    (removeVariableA a v).1.rdf = a.rdf ∨ ∃ c, (removeVariableA a v).1.rdf = dropSubject c a.rdf := by
  unfold removeVariableA
  split
  · exact Or.inl rfl
  · cases getDefinition a.m v with
    | none => exact Or.inr ⟨_, rfl⟩
    | some e =>
      simp only
      cases removeEquation a.m e with
      | mk s1 out =>
        cases out with
        | ok => exact Or.inr ⟨_, rfl⟩
        | raised x => exact Or.inl rfl

theorem inv_addUnique {s : MState} (h : Inv s) (base : String) : Inv (addUnique s base) :=
  inv_addVariable h _ none none

theorem inv_convertMover {s : MState} (h : Inv s) (v nv : Nat) (move : Bool) : Inv (convertMover s v nv move) := by
  unfold convertMover
  split
  · exact inv_transferCmetaId h v nv
  · exact h

theorem inv_foldl_addUnique (f : MState → Nat → String) :
    ∀ (ds : List Nat) (s : MState), Inv s → Inv (ds.foldl (fun s d => addUnique s (f s d)) s) := by
  intro ds
  induction ds with
  | nil => intro s h; exact h
  | cons d ds ih => intro s h; exact ih _ (inv_addUnique h _)

theorem inv_convertVariable {a : AState} (h : Inv a.m) (v : Nat) (move : Bool) (k : ConvKind) :
    Inv (convertVariable a v move k).1.m := by
  unfold convertVariable
  split
  · exact h
  · cases k with
    | same => exact h
    | output => exact inv_foldl_addUnique _ _ _ (inv_convertMover (inv_addUnique h _) _ _ _)
    | input ds => exact inv_foldl_addUnique _ _ _ (inv_convertMover (inv_addUnique h _) _ _ _)

theorem convertVariable_rdf (a : AState) (v : Nat) (move : Bool) (k : ConvKind) :
    (convertVariable a v move k).1.rdf = a.rdf := by
  unfold convertVariable
  split
  · rfl
  · cases k <;> rfl

theorem inv_loaderMove {s : MState} (h : Inv s) (t d : Nat) : Inv (loaderMove s t d).1 := by
  unfold loaderMove
  split
  · exact h
  · exact inv_transferCmetaId h t d

/-- every call — valid or raising — preserves the invariant, hence the bijection -/
theorem ainv_step {a : AState} (A : AInv a) (op : AOp) : AInv (astep a op).1 := by
  cases op with
  | base op =>
    cases op with
    | removeVariable v =>
      refine ⟨?_, ?_⟩
      · show Inv (removeVariableA a v).1.m
        rw [(removeVariableA_m a v).1]; exact inv_removeVariable A.inv v
      · show (removeVariableA a v).1.rdf.Nodup
        rcases removeVariableA_rdf a v with h | ⟨c, h⟩
        · rw [h]; exact A.rdfNodup
        · rw [h]; exact (dropSubject_sublist c a.rdf).nodup A.rdfNodup
    | addVariable n c i => exact ⟨inv_step A.inv (.addVariable n c i), A.rdfNodup⟩
    | addEquation e => exact ⟨inv_step A.inv (.addEquation e), A.rdfNodup⟩
    | removeEquation e => exact ⟨inv_step A.inv (.removeEquation e), A.rdfNodup⟩
    | createQuantity => exact ⟨inv_step A.inv .createQuantity, A.rdfNodup⟩
    | addCmetaId v => exact ⟨inv_step A.inv (.addCmetaId v), A.rdfNodup⟩
    | transferCmetaId x y => exact ⟨inv_step A.inv (.transferCmetaId x y), A.rdfNodup⟩
    | qGraph => exact ⟨inv_step A.inv .qGraph, A.rdfNodup⟩
    | qGraphNum => exact ⟨inv_step A.inv .qGraphNum, A.rdfNodup⟩
    | qStates => exact ⟨inv_step A.inv .qStates, A.rdfNodup⟩
    | qFree => exact ⟨inv_step A.inv .qFree, A.rdfNodup⟩
    | qDefinition v => exact ⟨inv_step A.inv (.qDefinition v), A.rdfNodup⟩
  | addRdf t =>
    refine ⟨?_, ?_⟩
    · show Inv (addRdf a t).m
      unfold addRdf; split <;> exact A.inv
    · show (addRdf a t).rdf.Nodup
      unfold addRdf
      split
      · exact A.rdfNodup
      · rename_i hn
        have hn' : t ∉ a.rdf := by simpa using hn
        exact List.nodup_append.mpr ⟨A.rdfNodup, (by simp : [t].Nodup), by
          intro x hx y hy; simp at hy; subst hy; intro e; subst e; exact hn' hx⟩
  | convert v move k =>
    exact ⟨inv_convertVariable A.inv v move k, by
      show (convertVariable a v move k).1.rdf.Nodup
      rw [convertVariable_rdf]; exact A.rdfNodup⟩
  | loaderMove t d => exact ⟨inv_loaderMove A.inv t d, A.rdfNodup⟩

theorem ainv_init (mc : Option String) : AInv (ainit mc) := ⟨inv_init mc, List.nodup_nil⟩

theorem ainv_run (mc : Option String) (ops : List AOp) : AInv (arun mc ops) := by
  unfold arun
  suffices ∀ (a : AState), AInv a → AInv (ops.foldl (fun a op => (astep a op).1) a) from this _ (ainv_init mc)
  induction ops with
  | nil => intro a h; exact h
  | cons op ops ih => intro a h; exact ih _ (ainv_step h op)

-- ------------------------------------------------------------------------------------------------ get_unique_name
/-- the candidates of `get_unique_name`: `n`, `n_a`, `n_a_a`, … -/
def candA (c : String) : Nat → String
  | 0 => c
  | k + 1 => candA (c ++ "_a") k

theorem candA_length (c : String) (k : Nat) : (candA c k).length = c.length + 2 * k := by
  induction k generalizing c with
  | zero => rfl
  | succ k ih =>
    show (candA (c ++ "_a") k).length = _
    rw [ih, String.length_append]
    show c.length + 2 + 2 * k = _
    omega

theorem candA_inj (c : String) (i j : Nat) (h : candA c i = candA c j) : i = j := by
  have := congrArg String.length h
  rw [candA_length, candA_length] at this
  omega

theorem uniqueName_taken {s : MState} : ∀ (n : Nat) (c : String), nameTaken s (uniqueName s c n) = true →
    ∀ k, k ≤ n → nameTaken s (candA c k) = true := by
  intro n
  induction n with
  | zero =>
    intro c h k hk
    have : k = 0 := by omega
    subst this; exact h
  | succ n ih =>
    intro c h k hk
    unfold uniqueName at h
    by_cases hh : nameTaken s c = true
    · simp only [hh, if_true] at h
      cases k with
      | zero => exact hh
      | succ k => exact ih _ h k (by omega)
    · simp [hh] at h

/-- the name `get_unique_name` returns is not in use -/
theorem uniqueName_free (s : MState) (c : String) : nameTaken s (uniqueName s c (s.live.length + 1)) = false := by
  cases h : nameTaken s (uniqueName s c (s.live.length + 1)) with
  | false => rfl
  | true =>
    exfalso
    have hall := uniqueName_taken _ _ h
    refine pigeon (candA c) (candA_inj c) (s.live.map (nameOfVar s)).length (s.live.map (nameOfVar s)) rfl ?_
    intro k hk
    have := hall k (by simp at hk; omega)
    unfold nameTaken at this
    rw [List.any_eq_true] at this
    obtain ⟨i, hi, he⟩ := this
    exact List.mem_map.mpr ⟨i, hi, by simpa using he⟩

/-- a variable added by `convert_variable`: a new live variable without id; nobody else is touched -/
theorem addUnique_effect (s : MState) (base : String) :
    (addUnique s base).live = s.live ++ [s.heap.length] ∧ (addUnique s base).heap.length = s.heap.length + 1 ∧
    (addUnique s base).modelCmeta = s.modelCmeta ∧ (∀ i, cmetaOf (addUnique s base) i = cmetaOf s i) := by
  obtain ⟨_, h2, h3, h4, h5, _⟩ := addVariable_ok (s := s) (n := uniqueName s base (s.live.length + 1)) (c := none)
    (iv := none) (uniqueName_free s base) rfl
  refine ⟨h2, h3, h4, ?_⟩
  intro i
  show cmetaOf (addVariable s _ none none).1 i = _
  rw [h5 i]
  split
  · rename_i hi; subst hi; exact (cmetaOf_ge (Nat.le_refl _)).symm
  · rfl

theorem foldl_addUnique_effect (f : MState → Nat → String) : ∀ (ds : List Nat) (s : MState),
    (∃ extra, (ds.foldl (fun s d => addUnique s (f s d)) s).live = s.live ++ extra ∧ ∀ i ∈ extra, s.heap.length ≤ i) ∧
    s.heap.length ≤ (ds.foldl (fun s d => addUnique s (f s d)) s).heap.length ∧
    (ds.foldl (fun s d => addUnique s (f s d)) s).modelCmeta = s.modelCmeta ∧
    (∀ i, cmetaOf (ds.foldl (fun s d => addUnique s (f s d)) s) i = cmetaOf s i) := by
  intro ds
  induction ds with
  | nil => intro s; exact ⟨⟨[], by simp, by simp⟩, Nat.le_refl _, rfl, fun _ => rfl⟩
  | cons d ds ih =>
    intro s
    obtain ⟨e1, e2, e3, e4⟩ := addUnique_effect s (f s d)
    obtain ⟨⟨extra, hx, hge⟩, hlen, hm, hc⟩ := ih (addUnique s (f s d))
    refine ⟨⟨s.heap.length :: extra, ?_, ?_⟩, ?_, ?_, ?_⟩
    · show (ds.foldl _ (addUnique s (f s d))).live = _
      rw [hx, e1]; simp
    · intro i hi
      rcases List.mem_cons.mp hi with rfl | hi
      · exact Nat.le_refl _
      · have := hge i hi; omega
    · show s.heap.length ≤ (ds.foldl _ (addUnique s (f s d))).heap.length
      omega
    · show (ds.foldl _ (addUnique s (f s d))).modelCmeta = _
      rw [hm, e3]
    · intro i
      show cmetaOf (ds.foldl _ (addUnique s (f s d))) i = _
      rw [hc, e4]

-- ------------------------------------------------------------------------------------------------ convert_variable
/-- the ids after `convert_variable`: with `move_annotations` the id of `v` (if it has one) is on the new variable
    `nv`; otherwise nothing moves -/
def idsAfterConvert (s : MState) (v nv : Nat) (move : Bool) (i : Nat) : Option String :=
  if move = true ∧ (cmetaOf s v).isSome = true then
    (if i = v then none else if i = nv then cmetaOf s v else cmetaOf s i)
  else cmetaOf s i

def convertBody (s : MState) (v : Nat) (move : Bool) (base : String) (f : MState → Nat → String) (ds : List Nat) : MState :=
  ds.foldl (fun s d => addUnique s (f s d)) (convertMover (addUnique s base) v s.heap.length move)

theorem convertBody_effect {s : MState} (h : Inv s) {v : Nat} (hv : v ∈ s.live) (move : Bool) (base : String)
    (f : MState → Nat → String) (ds : List Nat) :
    (convertBody s v move base f ds).modelCmeta = s.modelCmeta ∧
    (∃ extra, (convertBody s v move base f ds).live = s.live ++ s.heap.length :: extra ∧ ∀ i ∈ extra, s.heap.length < i) ∧
    (∀ i, cmetaOf (convertBody s v move base f ds) i = idsAfterConvert s v s.heap.length move i) := by
  obtain ⟨e1, e2, e3, e4⟩ := addUnique_effect s base
  have h1 : Inv (addUnique s base) := inv_addUnique h base
  have hv1 : v ∈ (addUnique s base).live := by rw [e1]; exact List.mem_append_left _ hv
  have hn1 : s.heap.length ∈ (addUnique s base).live := by rw [e1]; simp
  have hcn : cmetaOf (addUnique s base) s.heap.length = none := by rw [e4]; exact cmetaOf_ge (Nat.le_refl _)
  have hvlt : v < s.heap.length := h.reg.liveBound v hv
  -- the mover
  have hmv : (convertMover (addUnique s base) v s.heap.length move).live = (addUnique s base).live ∧
      (convertMover (addUnique s base) v s.heap.length move).heap.length = (addUnique s base).heap.length ∧
      (convertMover (addUnique s base) v s.heap.length move).modelCmeta = s.modelCmeta ∧
      (∀ i, cmetaOf (convertMover (addUnique s base) v s.heap.length move) i = idsAfterConvert s v s.heap.length move i) := by
    unfold convertMover idsAfterConvert
    by_cases hm : (move && (cmetaOf (addUnique s base) v).isSome) = true
    · rw [if_pos hm]
      rw [Bool.and_eq_true] at hm
      obtain ⟨hm1, hm2⟩ := hm
      cases hc : cmetaOf (addUnique s base) v with
      | none => rw [hc] at hm2; cases hm2
      | some c =>
        obtain ⟨_, t2, t3, t4, t5, _⟩ := transferCmetaId_ok h1.reg hv1 hn1 hc hcn
        have hcs : cmetaOf s v = some c := by rw [← e4]; exact hc
        refine ⟨t2, t3, by rw [t4, e3], ?_⟩
        intro i
        have hcond : move = true ∧ (cmetaOf s v).isSome = true := ⟨hm1, by rw [hcs]; rfl⟩
        rw [t5 i, if_pos hcond, hcs, e4]
    · rw [if_neg hm]
      refine ⟨rfl, rfl, e3, ?_⟩
      intro i
      rw [e4]
      rw [if_neg]
      rintro ⟨hm1, hm2⟩
      apply hm
      rw [Bool.and_eq_true]
      exact ⟨hm1, by rw [e4]; exact hm2⟩
  obtain ⟨m1, m2, m3, m4⟩ := hmv
  obtain ⟨⟨extra, hx, hge⟩, _, fm, fc⟩ := foldl_addUnique_effect f ds (convertMover (addUnique s base) v s.heap.length move)
  unfold convertBody
  refine ⟨by rw [fm, m3], ⟨extra, ?_, ?_⟩, ?_⟩
  · rw [hx, m1, e1]; simp
  · intro i hi
    have := hge i hi
    rw [m2, e2] at this
    omega
  · intro i
    rw [fc, m4]

theorem convertVariable_effect {a : AState} (h : Inv a.m) {v : Nat} (hv : v ∈ a.m.live) (move : Bool) {k : ConvKind}
    (hk : k ≠ .same) :
    (convertVariable a v move k).2 = .ok ∧ (convertVariable a v move k).1.rdf = a.rdf ∧
    (convertVariable a v move k).1.m.modelCmeta = a.m.modelCmeta ∧
    (∃ extra, (convertVariable a v move k).1.m.live = a.m.live ++ a.m.heap.length :: extra ∧
      ∀ i ∈ extra, a.m.heap.length < i) ∧
    (∀ i, cmetaOf (convertVariable a v move k).1.m i = idsAfterConvert a.m v a.m.heap.length move i) := by
  have hl : isLive a.m v = true := by simpa [isLive] using hv
  unfold convertVariable
  simp only [hl, Bool.not_true, Bool.false_eq_true, if_false]
  cases k with
  | same => exact absurd rfl hk
  | output =>
    obtain ⟨b1, b2, b3⟩ := convertBody_effect h hv move (nameOfVar a.m v ++ "_converted")
      (fun s d => nameOfVar s d ++ "_orig_deriv") ConvKind.output.derivs
    exact ⟨by first | rfl | trivial, by first | rfl | trivial, b1, b2, b3⟩
  | input ds =>
    obtain ⟨b1, b2, b3⟩ := convertBody_effect h hv move (nameOfVar a.m v ++ "_converted")
      (fun s d => nameOfVar s d ++ "_orig_deriv") (ConvKind.input ds).derivs
    exact ⟨by first | rfl | trivial, by first | rfl | trivial, b1, b2, b3⟩

/-- `same` (conversion factor 1, or DimensionalityError) and calls on variables outside the model change nothing -/
theorem convertVariable_noop {a : AState} {v : Nat} {move : Bool} {k : ConvKind} (h : v ∉ a.m.live ∨ k = .same) :
    (convertVariable a v move k).1 = a := by
  unfold convertVariable
  by_cases hl : isLive a.m v = true
  · rcases h with h | h
    · exact absurd (by simpa [isLive] using hl) h
    · subst h; simp [hl]
  · have : isLive a.m v = false := by simpa using hl
    simp [this]

end Model
